package refeval

// Known-answer tests of the reference evaluator, written from the
// documentation of pkg/expr (operand widths are adjusted to the width of the
// operation by truncation / zero extension, shifts by >= width give 0,
// unsigned division by zero gives all ones, Less compares unsigned).

import (
	"math/big"
	"testing"

	"mltwist/pkg/expr"
)

func c(v uint64, w int) expr.Expr { return expr.NewConstUint(v, expr.Width(w)) }

func TestEvalKnownAnswers(t *testing.T) {
	val := HashVal{Mode: 1}
	cases := []struct {
		name string
		e    expr.Expr
		want uint64
	}{
		{"add wraps", expr.NewBinary(expr.Add, c(0xff, 1), c(2, 1), 1), 1},
		{"add truncates operands", expr.NewBinary(expr.Add, c(0x1ff, 2), c(0x201, 2), 1), 0},
		{"add extends operands", expr.NewBinary(expr.Add, c(0xff, 1), c(1, 1), 2), 0x100},
		{"mul low half", expr.NewBinary(expr.Mul, c(0xffffffff, 4), c(0xffffffff, 4), 4), 1},
		{"mul wide", expr.NewBinary(expr.Mul, c(0xffffffff, 4), c(0xffffffff, 4), 8), 0xfffffffe00000001},
		{"lsh", expr.NewBinary(expr.Lsh, c(0x81, 1), c(1, 1), 1), 2},
		{"lsh by width", expr.NewBinary(expr.Lsh, c(1, 1), c(8, 1), 1), 0},
		{"lsh by huge amount", expr.NewBinary(expr.Lsh, c(1, 8), c(1<<40, 8), 8), 0},
		{"lsh amount truncated to op width", expr.NewBinary(expr.Lsh, c(1, 1), c(0x101, 2), 1), 2},
		{"rsh logical", expr.NewBinary(expr.Rsh, c(0x80, 1), c(7, 1), 1), 1},
		{"rsh by width", expr.NewBinary(expr.Rsh, c(0x80, 1), c(8, 1), 1), 0},
		{"rsh truncates first", expr.NewBinary(expr.Rsh, c(0x1f0, 2), c(4, 1), 1), 0xf},
		{"div", expr.NewBinary(expr.Div, c(100, 1), c(7, 1), 1), 14},
		{"div unsigned", expr.NewBinary(expr.Div, c(0xfe, 1), c(2, 1), 1), 0x7f},
		{"div by zero", expr.NewBinary(expr.Div, c(5, 2), c(0, 2), 2), 0xffff},
		{"div by zero after truncation", expr.NewBinary(expr.Div, c(5, 2), c(0x100, 2), 1), 0xff},
		{"nand", expr.NewBinary(expr.Nand, c(0xf0, 1), c(0x3c, 1), 1), 0xcf},
		{"nand extends", expr.NewBinary(expr.Nand, c(0xff, 1), c(0xff, 1), 2), 0xff00},
		{"less true", expr.NewLess(c(1, 1), c(0xff, 1), c(7, 1), c(9, 1), 1), 7},
		{"less is unsigned", expr.NewLess(c(0xff, 1), c(1, 1), c(7, 1), c(9, 1), 1), 9},
		{"less equal is false", expr.NewLess(c(5, 1), c(5, 1), c(7, 1), c(9, 1), 1), 9},
		{"less compares at its width", expr.NewLess(c(0x1ff, 2), c(0x100, 2), c(7, 1), c(9, 1), 1), 9},
		{"less result adjusted", expr.NewLess(c(0, 1), c(1, 1), c(0x1234, 2), c(0, 1), 1), 0x34},
		{"register all zero", expr.NewRegLoad(expr.NewKey("x1"), 8), 0},
		{"memory all zero", expr.NewMemLoad(expr.NewKey("m"), c(0x10, 8), 4), 0},
	}
	for _, k := range cases {
		got := Eval(k.e, val)
		if got.Cmp(new(big.Int).SetUint64(k.want)) != 0 {
			t.Errorf("%s: %s = %#x, want %#x", k.name, Render(k.e), got, k.want)
		}
	}
}

func TestValuationAndMemoryOrder(t *testing.T) {
	ones := HashVal{Mode: 2}
	if got := Eval(expr.NewRegLoad(expr.NewKey("x1"), 2), ones); got.Uint64() != 0xffff {
		t.Errorf("all-ones register: %#x", got)
	}
	if got := Eval(expr.NewMemLoad(expr.NewKey("m"), c(0, 8), 2), ones); got.Uint64() != 0xffff {
		t.Errorf("all-ones memory: %#x", got)
	}
	// a pseudo-random valuation is a function: same question, same answer;
	// a narrower read of a register is the low part of the wider one;
	// memory is little endian and byte addressed.
	v := HashVal{Seed: 12345}
	r8 := Eval(expr.NewRegLoad(expr.NewKey("x5"), 8), v).Uint64()
	r2 := Eval(expr.NewRegLoad(expr.NewKey("x5"), 2), v).Uint64()
	if r8&0xffff != r2 {
		t.Errorf("narrow register read %#x is not the low part of %#x", r2, r8)
	}
	m4 := Eval(expr.NewMemLoad(expr.NewKey("m"), c(0x100, 8), 4), v).Uint64()
	for i := uint64(0); i < 4; i++ {
		b := Eval(expr.NewMemLoad(expr.NewKey("m"), c(0x100+i, 8), 1), v).Uint64()
		if b != uint64(v.MemByte("m", 0x100+i)) || (m4>>(8*i))&0xff != b {
			t.Errorf("byte %d of the word %#x is %#x", i, m4, b)
		}
	}
	// address arithmetic wraps at 2^64
	top := Eval(expr.NewMemLoad(expr.NewKey("m"), c(^uint64(0), 8), 2), v).Uint64()
	if top != uint64(v.MemByte("m", ^uint64(0)))|uint64(v.MemByte("m", 0))<<8 {
		t.Errorf("load across the end of the address space: %#x", top)
	}
}

func TestJSONRoundTrip(t *testing.T) {
	e := expr.NewLess(
		expr.NewBinary(expr.Add, expr.NewRegLoad(expr.NewKey("x1"), 8), c(4, 8), 8),
		expr.NewMemLoad(expr.NewKey("m"), expr.NewRegLoad(expr.NewKey("x2"), 8), 4),
		c(1, 1), expr.NewBinary(expr.Nand, c(3, 2), c(5, 2), 2), 4)
	back := FromExpr(e).Build()
	if Render(back) != Render(e) {
		t.Errorf("round trip changed the expression:\n %s\n %s", Render(e), Render(back))
	}
	for _, v := range StandardValuations(7, 4) {
		if Eval(e, v).Cmp(Eval(back, v)) != 0 {
			t.Errorf("round trip changed the value")
		}
	}
	if ToLE(big.NewInt(0x1234), 4)[0] != 0x34 || len(ToLE(big.NewInt(0x1234), 1)) != 1 {
		t.Errorf("ToLE")
	}
}
