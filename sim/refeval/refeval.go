// Package refeval is an independent big-integer evaluator of mltwist's
// expression IR under a valuation of registers and memory, written from the
// width rules documented in pkg/expr, plus a JSON form of expressions so that
// traces can carry symbolic values.
package refeval

import (
	"encoding/hex"
	"fmt"
	"math/big"
	"mltwist/pkg/expr"
	"strings"
)

// J is the JSON form of an expression.
type J struct {
	C string `json:"c,omitempty"`  // const: hex of little-endian bytes (width = len)
	CW int   `json:"cw,omitempty"` // const marker: width (so that a zero-length hex is unambiguous)
	R string `json:"r,omitempty"`  // reg load key
	M string `json:"m,omitempty"`  // mem load key
	B int    `json:"b,omitempty"`  // binary op (expr.BinaryOp value)
	L bool   `json:"l,omitempty"`  // less
	W int    `json:"w,omitempty"`  // width (all but const)
	A []*J   `json:"a,omitempty"`  // operands
}

func ConstJ(bs []byte) *J { return &J{C: hex.EncodeToString(bs), CW: len(bs)} }
func ConstU(v uint64, w int) *J {
	bs := make([]byte, w)
	for i := 0; i < w && i < 8; i++ {
		bs[i] = byte(v >> (8 * uint(i)))
	}
	return ConstJ(bs)
}
func RegJ(k string, w int) *J         { return &J{R: k, W: w} }
func MemJ(k string, a *J, w int) *J   { return &J{M: k, W: w, A: []*J{a}} }
func BinJ(op int, x, y *J, w int) *J  { return &J{B: op, W: w, A: []*J{x, y}} }
func LessJ(a, b, t, f *J, w int) *J   { return &J{L: true, W: w, A: []*J{a, b, t, f}} }
func (j *J) IsConst() bool            { return j.CW > 0 }
func (j *J) Width() int {
	if j.IsConst() {
		return j.CW
	}
	return j.W
}

// Build converts the JSON form into a real mltwist expression.
func (j *J) Build() expr.Expr {
	switch {
	case j.IsConst():
		bs, err := hex.DecodeString(j.C)
		if err != nil || len(bs) != j.CW {
			panic(fmt.Sprintf("bad const %q/%d", j.C, j.CW))
		}
		return expr.NewConst(bs, expr.Width(j.CW))
	case j.R != "":
		return expr.NewRegLoad(expr.Key(j.R), expr.Width(j.W))
	case j.M != "":
		return expr.NewMemLoad(expr.Key(j.M), j.A[0].Build(), expr.Width(j.W))
	case j.B != 0:
		return expr.NewBinary(expr.BinaryOp(j.B), j.A[0].Build(), j.A[1].Build(), expr.Width(j.W))
	case j.L:
		return expr.NewLess(j.A[0].Build(), j.A[1].Build(), j.A[2].Build(), j.A[3].Build(), expr.Width(j.W))
	}
	panic("empty expression node")
}

// FromExpr converts a real expression into the JSON form.
func FromExpr(e expr.Expr) *J {
	switch x := e.(type) {
	case expr.Const:
		return ConstJ(append([]byte(nil), x.Bytes()...))
	case expr.RegLoad:
		return RegJ(string(x.Key()), int(x.Width()))
	case expr.MemLoad:
		return MemJ(string(x.Key()), FromExpr(x.Addr()), int(x.Width()))
	case expr.Binary:
		return BinJ(int(x.Op()), FromExpr(x.Arg1()), FromExpr(x.Arg2()), int(x.Width()))
	case expr.Less:
		return LessJ(FromExpr(x.Arg1()), FromExpr(x.Arg2()), FromExpr(x.ExprTrue()), FromExpr(x.ExprFalse()), int(x.Width()))
	}
	panic(fmt.Sprintf("unknown expr %T", e))
}

// Render is a canonical text of an expression (deep, including constant
// bytes); used as a snapshot for the aliasing oracle.
func Render(e expr.Expr) string {
	var sb strings.Builder
	render(e, &sb)
	return sb.String()
}

func render(e expr.Expr, sb *strings.Builder) {
	switch x := e.(type) {
	case expr.Const:
		fmt.Fprintf(sb, "c%d:%x", x.Width(), x.Bytes())
	case expr.RegLoad:
		fmt.Fprintf(sb, "r%d:%s", x.Width(), x.Key())
	case expr.MemLoad:
		fmt.Fprintf(sb, "m%d:%s[", x.Width(), x.Key())
		render(x.Addr(), sb)
		sb.WriteByte(']')
	case expr.Binary:
		fmt.Fprintf(sb, "b%d:%d(", x.Width(), x.Op())
		render(x.Arg1(), sb)
		sb.WriteByte(',')
		render(x.Arg2(), sb)
		sb.WriteByte(')')
	case expr.Less:
		fmt.Fprintf(sb, "l%d(", x.Width())
		render(x.Arg1(), sb)
		sb.WriteByte(',')
		render(x.Arg2(), sb)
		sb.WriteByte(',')
		render(x.ExprTrue(), sb)
		sb.WriteByte(',')
		render(x.ExprFalse(), sb)
		sb.WriteByte(')')
	case nil:
		sb.WriteString("nil")
	default:
		fmt.Fprintf(sb, "?%T", e)
	}
}

// Valuation assigns values to registers and memory bytes.
type Valuation interface {
	Reg(key string) *big.Int          // full register value (any width)
	MemByte(key string, addr uint64) byte
}

// HashVal is a pseudo-random valuation derived from a seed; Mode 1 = all
// zero, Mode 2 = all ones.
type HashVal struct {
	Seed uint64
	Mode int
}

func mix(x uint64) uint64 {
	x += 0x9e3779b97f4a7c15
	x = (x ^ (x >> 30)) * 0xbf58476d1ce4e5b9
	x = (x ^ (x >> 27)) * 0x94d049bb133111eb
	return x ^ (x >> 31)
}

func strHash(s string) uint64 {
	h := uint64(1469598103934665603)
	for i := 0; i < len(s); i++ {
		h ^= uint64(s[i])
		h *= 1099511628211
	}
	return h
}

func (h HashVal) Reg(key string) *big.Int {
	bs := make([]byte, 40)
	switch h.Mode {
	case 1:
	case 2:
		for i := range bs {
			bs[i] = 0xff
		}
	default:
		k := strHash(key) ^ h.Seed
		for i := 0; i < len(bs); i += 8 {
			v := mix(k + uint64(i))
			for j := 0; j < 8; j++ {
				bs[i+j] = byte(v >> (8 * uint(j)))
			}
		}
		// Make small and boundary values likely too.
		switch mix(k^0xabc) % 6 {
		case 0:
			for i := 1; i < len(bs); i++ {
				bs[i] = 0
			}
		case 1:
			for i := range bs {
				bs[i] = 0xff
			}
			bs[0] = byte(mix(k))
		}
	}
	return leToBig(bs)
}

func (h HashVal) MemByte(key string, addr uint64) byte {
	switch h.Mode {
	case 1:
		return 0
	case 2:
		return 0xff
	}
	return byte(mix(strHash(key) ^ h.Seed ^ mix(addr)))
}

func leToBig(bs []byte) *big.Int {
	be := make([]byte, len(bs))
	for i, b := range bs {
		be[len(bs)-1-i] = b
	}
	return new(big.Int).SetBytes(be)
}

// ToLE renders v (already reduced) as w little-endian bytes.
func ToLE(v *big.Int, w int) []byte {
	be := v.Bytes()
	out := make([]byte, w)
	for i := 0; i < len(be) && i < w; i++ {
		out[i] = be[len(be)-1-i]
	}
	return out
}

func mod(v *big.Int, w int) *big.Int {
	m := new(big.Int).Lsh(big.NewInt(1), uint(8*w))
	r := new(big.Int).Mod(v, m)
	return r
}

// Eval computes the value of e (in [0, 2^(8*width))) under val.
func Eval(e expr.Expr, val Valuation) *big.Int {
	switch x := e.(type) {
	case expr.Const:
		return leToBig(x.Bytes())
	case expr.RegLoad:
		return mod(val.Reg(string(x.Key())), int(x.Width()))
	case expr.MemLoad:
		a := Eval(x.Addr(), val)
		addr := mod(a, 8).Uint64()
		bs := make([]byte, x.Width())
		for i := range bs {
			bs[i] = val.MemByte(string(x.Key()), addr+uint64(i))
		}
		return leToBig(bs)
	case expr.Binary:
		w := int(x.Width())
		a := mod(Eval(x.Arg1(), val), w)
		b := mod(Eval(x.Arg2(), val), w)
		switch x.Op() {
		case expr.Add:
			return mod(new(big.Int).Add(a, b), w)
		case expr.Mul:
			return mod(new(big.Int).Mul(a, b), w)
		case expr.Lsh:
			if b.Cmp(big.NewInt(int64(8*w))) >= 0 {
				return new(big.Int)
			}
			return mod(new(big.Int).Lsh(a, uint(b.Uint64())), w)
		case expr.Rsh:
			if b.Cmp(big.NewInt(int64(8*w))) >= 0 {
				return new(big.Int)
			}
			return new(big.Int).Rsh(a, uint(b.Uint64()))
		case expr.Div:
			if b.Sign() == 0 {
				m := new(big.Int).Lsh(big.NewInt(1), uint(8*w))
				return m.Sub(m, big.NewInt(1))
			}
			return new(big.Int).Div(a, b)
		case expr.Nand:
			m := new(big.Int).Lsh(big.NewInt(1), uint(8*w))
			m.Sub(m, big.NewInt(1))
			and := new(big.Int).And(a, b)
			return and.Xor(and, m)
		}
		panic(fmt.Sprintf("unknown binary op %d", x.Op()))
	case expr.Less:
		w := int(x.Width())
		a := mod(Eval(x.Arg1(), val), w)
		b := mod(Eval(x.Arg2(), val), w)
		if a.Cmp(b) < 0 {
			return mod(Eval(x.ExprTrue(), val), w)
		}
		return mod(Eval(x.ExprFalse(), val), w)
	}
	panic(fmt.Sprintf("unknown expr %T", e))
}

// EvalBytes evaluates e and adjusts it (zero-extend / truncate) to w bytes.
func EvalBytes(e expr.Expr, val Valuation, w int) []byte {
	return ToLE(mod(Eval(e, val), w), w)
}

// StandardValuations: all-zero, all-ones and n pseudo-random ones.
func StandardValuations(seed uint64, n int) []Valuation {
	vs := []Valuation{HashVal{Mode: 1}, HashVal{Mode: 2}}
	for i := 0; i < n; i++ {
		vs = append(vs, HashVal{Seed: mix(seed + uint64(i)*7919)})
	}
	return vs
}
