// Package ptyx opens pseudo-terminals and sets their window size with the
// standard library's syscall package only (importing golang.org/x/sys directly
// would make -mod=mod rewrite the repository's go.mod).
package ptyx

import (
	"fmt"
	"os"
	"syscall"
	"unsafe"
)

const (
	tiocgptn   = 0x80045430
	tiocsptlck = 0x40045431
	tiocswinsz = 0x5414
)

type winsize struct{ Row, Col, X, Y uint16 }

func ioctl(fd uintptr, req uintptr, arg unsafe.Pointer) error {
	_, _, e := syscall.Syscall(syscall.SYS_IOCTL, fd, req, uintptr(arg))
	if e != 0 {
		return e
	}
	return nil
}

// Open returns the master side and the path of the slave side of a new pty.
func Open() (*os.File, string, error) {
	m, err := os.OpenFile("/dev/ptmx", os.O_RDWR|syscall.O_NOCTTY, 0)
	if err != nil {
		return nil, "", err
	}
	var n uint32
	if err := ioctl(m.Fd(), tiocgptn, unsafe.Pointer(&n)); err != nil {
		m.Close()
		return nil, "", fmt.Errorf("TIOCGPTN: %w", err)
	}
	var unlock int32
	if err := ioctl(m.Fd(), tiocsptlck, unsafe.Pointer(&unlock)); err != nil {
		m.Close()
		return nil, "", fmt.Errorf("TIOCSPTLCK: %w", err)
	}
	return m, fmt.Sprintf("/dev/pts/%d", n), nil
}

// SetSize sets the window size (works on either side of the pty).
func SetSize(fd uintptr, rows, cols int) error {
	ws := winsize{Row: uint16(rows), Col: uint16(cols)}
	return ioctl(fd, tiocswinsz, unsafe.Pointer(&ws))
}

const (
	tcgets = 0x5401
	tcsets = 0x5402
)

// MakeRaw switches the line discipline of a pty off (no canonical mode, no
// echo, no signal or flow-control characters, no CR/NL translation), so the
// reader on the slave side gets exactly the bytes written to the master.
func MakeRaw(fd uintptr) error {
	var t syscall.Termios
	if err := ioctl(fd, tcgets, unsafe.Pointer(&t)); err != nil {
		return err
	}
	t.Iflag &^= syscall.IGNBRK | syscall.BRKINT | syscall.PARMRK | syscall.ISTRIP | syscall.INLCR | syscall.IGNCR | syscall.ICRNL | syscall.IXON
	t.Oflag &^= syscall.OPOST
	t.Lflag &^= syscall.ECHO | syscall.ECHONL | syscall.ICANON | syscall.ISIG | syscall.IEXTEN
	t.Cflag &^= syscall.CSIZE | syscall.PARENB
	t.Cflag |= syscall.CS8
	t.Cc[syscall.VMIN] = 1
	t.Cc[syscall.VTIME] = 0
	return ioctl(fd, tcsets, unsafe.Pointer(&t))
}
