package movesim

import (
	"mltwist/internal/state/memory"
	"fmt"
	"mltwist/internal/consoleui/verifsim/core"
	"mltwist/internal/consoleui/verifsim/refeval"
	"mltwist/internal/deps"
	"mltwist/internal/emulator"
	"mltwist/internal/exprtransform"
	"mltwist/internal/parser"
	"mltwist/internal/riscv"
	"mltwist/internal/state"
	"mltwist/pkg/expr"
	"mltwist/pkg/model"
	"sort"
	"strings"
)

type details struct{ name, text string }

func (d details) Name() string   { return d.name }
func (d details) String() string { return d.text }

var rvParser = riscv.NewParser(riscv.Variant64, riscv.ExtM, riscv.ExtA)

// buildInstrs turns the trace's instruction list into parser.Instruction
// values: synthetic ones directly (the exported struct the package's own
// tests use), real words through the real front end.
func buildInstrs(t *Trace) ([]parser.Instruction, error) {
	out := make([]parser.Instruction, 0, len(t.Ins))
	for i, in := range t.Ins {
		if in.Len < 1 || in.Len > 16 {
			return nil, fmt.Errorf("bad length")
		}
		bs := make([]byte, in.Len)
		if in.Word != nil {
			if in.Len != 4 {
				return nil, fmt.Errorf("bad word length")
			}
			for k := 0; k < 4; k++ {
				bs[k] = byte(*in.Word >> (8 * uint(k)))
			}
			mi, err := rvParser.Parse(model.Addr(in.Addr), bs)
			if err != nil {
				return nil, err
			}
			out = append(out, parser.Instruction{
				Type: mi.Type, Addr: model.Addr(in.Addr), Bytes: bs,
				Effects: exprtransform.EffectsApply(mi.Effects, exprtransform.ConstFold),
				Details: mi.Details,
			})
			continue
		}
		for k := range bs {
			bs[k] = byte(i*16 + k)
		}
		var effs []expr.Effect
		for _, e := range in.Effs {
			if e.Val == nil {
				return nil, fmt.Errorf("effect without value")
			}
			switch {
			case e.Reg != "":
				effs = append(effs, expr.NewRegStore(e.Val.Build(), expr.Key(e.Reg), expr.Width(e.W)))
			case e.Mem != "" && e.Addr != nil:
				effs = append(effs, expr.NewMemStore(e.Val.Build(), expr.Key(e.Mem), e.Addr.Build(), expr.Width(e.W)))
			default:
				return nil, fmt.Errorf("bad effect")
			}
		}
		out = append(out, parser.Instruction{
			Type: model.Type(in.Type), Addr: model.Addr(in.Addr), Bytes: bs, Effects: effs,
			Details: details{in.Name, fmt.Sprintf("%s#%d", in.Name, i)},
		})
	}
	return out, nil
}

// ---- independent read/write-set extraction from effects ----

type rwSets struct {
	regR, regW map[string]bool
	memR, memW map[string]bool
	typ        model.Type
	realJump   bool // has a possible jump target other than the next instruction
	writesIP   bool
	constTgt   map[uint64]bool // the constant targets among its possible jump targets
}

func walk(e expr.Expr, f func(expr.Expr)) {
	f(e)
	switch x := e.(type) {
	case expr.Binary:
		walk(x.Arg1(), f)
		walk(x.Arg2(), f)
	case expr.Less:
		walk(x.Arg1(), f)
		walk(x.Arg2(), f)
		walk(x.ExprTrue(), f)
		walk(x.ExprFalse(), f)
	case expr.MemLoad:
		walk(x.Addr(), f)
	}
}

// alternatives enumerates the condition-free alternatives of e (own
// implementation; capped).
func alternatives(e expr.Expr, budget *int) []expr.Expr {
	if *budget <= 0 {
		return []expr.Expr{e}
	}
	switch x := e.(type) {
	case expr.Less:
		a := alternatives(x.ExprTrue(), budget)
		b := alternatives(x.ExprFalse(), budget)
		out := make([]expr.Expr, 0, len(a)+len(b))
		for _, v := range append(a, b...) {
			out = append(out, expr.NewBinary(expr.Add, v, expr.Zero, x.Width()))
		}
		*budget -= len(out)
		return out
	case expr.Binary:
		a := alternatives(x.Arg1(), budget)
		b := alternatives(x.Arg2(), budget)
		out := make([]expr.Expr, 0, len(a)*len(b))
		for _, p := range a {
			for _, q := range b {
				out = append(out, expr.NewBinary(x.Op(), p, q, x.Width()))
			}
		}
		*budget -= len(out)
		return out
	case expr.MemLoad:
		a := alternatives(x.Addr(), budget)
		out := make([]expr.Expr, 0, len(a))
		for _, p := range a {
			out = append(out, expr.NewMemLoad(x.Key(), p, x.Width()))
		}
		return out
	}
	return []expr.Expr{e}
}

func hasLoads(e expr.Expr) bool {
	found := false
	walk(e, func(x expr.Expr) {
		switch x.(type) {
		case expr.RegLoad, expr.MemLoad:
			found = true
		}
	})
	return found
}

func setsOf(effs []expr.Effect, typ model.Type, end uint64) rwSets {
	s := rwSets{regR: map[string]bool{}, regW: map[string]bool{}, memR: map[string]bool{}, memW: map[string]bool{}, typ: typ}
	scan := func(e expr.Expr) {
		walk(e, func(x expr.Expr) {
			switch l := x.(type) {
			case expr.RegLoad:
				s.regR[string(l.Key())] = true
			case expr.MemLoad:
				s.memR[string(l.Key())] = true
			}
		})
	}
	for _, ef := range effs {
		switch e := ef.(type) {
		case expr.RegStore:
			s.regW[string(e.Key())] = true
			scan(e.Value())
			if e.Key() == expr.IPKey {
				s.writesIP = true
				budget := 256
				for _, alt := range alternatives(e.Value(), &budget) {
					if hasLoads(alt) {
						s.realJump = true
						continue
					}
					v := refeval.EvalBytes(alt, refeval.HashVal{Mode: 1}, 8)
					var a uint64
					for i := 0; i < 8; i++ {
						a |= uint64(v[i]) << (8 * uint(i))
					}
					if s.constTgt == nil {
						s.constTgt = map[uint64]bool{}
					}
					s.constTgt[a] = true
					if a != end {
						s.realJump = true
					}
				}
			}
		case expr.MemStore:
			s.memW[string(e.Key())] = true
			scan(e.Value())
			scan(e.Addr())
		}
	}
	return s
}

func (s rwSets) memAccess() bool { return len(s.memR) > 0 || len(s.memW) > 0 }
func (s rwSets) special() bool   { return s.typ.Syscall() || s.typ.CPUStateChange() }

// independent implements the statement of C06 literally for an adjacent pair
// (a earlier, b later); bIsTerminator: b is the last instruction of the block
// and has a real jump target.
func independent(a, b rwSets, bIsTerminator bool) bool {
	for k := range a.regR {
		if b.regR[k] || b.regW[k] {
			return false
		}
	}
	for k := range a.regW {
		if b.regR[k] || b.regW[k] {
			return false
		}
	}
	for k := range a.memW {
		if b.memR[k] || b.memW[k] {
			return false
		}
	}
	for k := range b.memW {
		if a.memR[k] || a.memW[k] {
			return false
		}
	}
	if a.special() || b.special() {
		return false
	}
	if a.typ.MemOrder() && (b.memAccess() || b.typ.MemOrder()) {
		return false
	}
	if b.typ.MemOrder() && (a.memAccess() || a.typ.MemOrder()) {
		return false
	}
	if bIsTerminator {
		return false
	}
	return true
}

// ---- sequence model ----

type mIns struct {
	orig uint64
	len  uint64
}

type mBlock struct {
	begin uint64
	seq   []mIns
}

func rotate(seq []mIns, from, to int) {
	x := seq[from]
	if from < to {
		copy(seq[from:to], seq[from+1:to+1])
	} else {
		copy(seq[to+1:from+1], seq[to:from])
	}
	seq[to] = x
}

type sim struct {
	ctx   *core.Ctx
	t     *Trace
	code  *deps.Code
	orig  []parser.Instruction
	sets  map[uint64]rwSets // by original address
	model []*mBlock         // in current block order
	sweeps int // lookup sweeps so far (their direction alternates)
	lookupsOK bool // false while a LateLookups run waits for its first accepted block move
}

// snapshot renders the full observable state of the code.
func (s *sim) snapshot() string {
	var sb strings.Builder
	for bi, b := range s.code.Blocks() {
		fmt.Fprintf(&sb, "B%d idx=%d [%#x,%#x) n=%d:", bi, b.Idx(), b.Begin(), b.End(), b.Num())
		for i, in := range b.Instructions() {
			fmt.Fprintf(&sb, " %#x@%#x/i%d/lb%d/ub%d", in.OrigAddr(), in.Begin(), in.Idx(), b.LowerBound(i), b.UpperBound(i))
		}
		sb.WriteByte('\n')
	}
	return sb.String()
}

func (s *sim) fail(prop, oracle, sig string, ev int, format string, args ...interface{}) bool {
	return s.ctx.Fail(prop, oracle, sig, ev, format, args...)
}

// invariants checks everything C07 demands of a reached state. Returns false
// if the run must stop.
func (s *sim) invariants(ev int) bool {
	const P = "C07"
	blocks := s.code.Blocks()
	if len(blocks) != len(s.model) || s.code.Len() != len(s.model) {
		return !s.fail(P, "blocks", "blocks/count", ev, "code has %d blocks, model %d", len(blocks), len(s.model))
	}
	for bi, b := range blocks {
		mb := s.model[bi]
		if uint64(b.Begin()) != mb.begin {
			return !s.fail(P, "block-order", "block-order/begin", ev, "block at position %d begins at %#x, model %#x", bi, b.Begin(), mb.begin)
		}
		if b.Idx() != bi {
			return !s.fail(P, "block-order", "block-order/idx", ev, "block at position %d reports Idx %d", bi, b.Idx())
		}
		if c := s.code.Index(bi); c.Begin() != b.Begin() {
			return !s.fail(P, "block-order", "block-order/index", ev, "Index(%d) and Blocks()[%d] differ", bi, bi)
		}
		if b.Num() != len(mb.seq) {
			return !s.fail(P, "order", "order/num", ev, "block %d has %d instructions, model %d", bi, b.Num(), len(mb.seq))
		}
		addr := mb.begin
		ins := b.Instructions()
		for i, in := range ins {
			m := mb.seq[i]
			if uint64(in.OrigAddr()) != m.orig {
				return !s.fail(P, "order", "order/rotation", ev,
					"block %d position %d holds instruction %#x, model (rotation of accepted moves) expects %#x\n%s", bi, i, in.OrigAddr(), m.orig, s.snapshot())
			}
			if uint64(in.Begin()) != addr {
				return !s.fail(P, "addresses", "addresses/tiling", ev,
					"block %d position %d (orig %#x) is at %#x, contiguous layout from block start expects %#x\n%s", bi, i, m.orig, in.Begin(), addr, s.snapshot())
			}
			if uint64(in.Len()) != m.len || uint64(in.End()) != addr+m.len {
				return !s.fail(P, "addresses", "addresses/len", ev, "instruction %#x len/end wrong", m.orig)
			}
			if in.Idx() != i {
				return !s.fail(P, "index", "index/idx", ev, "block %d position %d reports Idx %d", bi, i, in.Idx())
			}
			if b.Index(i).OrigAddr() != in.OrigAddr() {
				return !s.fail(P, "index", "index/index", ev, "Index(%d) disagrees with Instructions()", i)
			}
			lb, ub := b.LowerBound(i), b.UpperBound(i)
			if lb > i || ub < i || lb < 0 || ub >= len(ins) {
				return !s.fail(P, "bounds", "bounds/self", ev,
					"instruction at block %d position %d reports bounds [%d,%d] that do not contain it\n%s", bi, i, lb, ub, s.snapshot())
			}
			back, fwd := b.VerifDeps(i)
			for _, d := range back {
				if d >= i {
					return !s.fail(P, "deps", "deps/order", ev,
						"instruction at block %d position %d depends on the instruction at position %d which does not precede it\n%s", bi, i, d, s.snapshot())
				}
			}
			for _, d := range fwd {
				if d <= i {
					return !s.fail(P, "deps", "deps/order", ev,
						"instruction at block %d position %d must precede position %d but does not\n%s", bi, i, d, s.snapshot())
				}
			}
			addr += m.len
		}
		if uint64(b.End()) != addr {
			return !s.fail(P, "addresses", "addresses/block-end", ev, "block %d ends at %#x, instructions end at %#x", bi, b.End(), addr)
		}
	}
	// Lookups at every instruction start and inside every instruction. The
	// sweep changes direction from one event to the next, so that the first
	// and the last address asked after an operation are not always the same
	// ones (an index or memo left behind by the previous sweep must not be
	// trusted by the code under test).
	if !s.lookupsOK {
		return true
	}
	s.sweeps++
	for k := range blocks {
		bi := k
		if s.sweeps%2 == 0 {
			bi = len(blocks) - 1 - k
		}
		b, mb := blocks[bi], s.model[bi]
		starts := make([]uint64, len(mb.seq))
		addr := mb.begin
		for i, m := range mb.seq {
			starts[i] = addr
			addr += m.len
		}
		for k2 := range mb.seq {
			i := k2
			if s.sweeps%2 == 0 {
				i = len(mb.seq) - 1 - k2
			}
			m, addr := mb.seq[i], starts[i]
			cb, ok := s.code.Address(model.Addr(addr))
			if !ok || cb.Begin() != b.Begin() {
				return !s.fail(P, "lookup", "lookup/block", ev, "Code.Address(%#x) does not find block %#x", addr, mb.begin)
			}
			fi, ok := b.Address(model.Addr(addr))
			if !ok || uint64(fi.OrigAddr()) != m.orig {
				return !s.fail(P, "lookup", "lookup/instruction", ev,
					"Block.Address(%#x) does not find the instruction currently there (orig %#x)\n%s", addr, m.orig, s.snapshot())
			}
			if m.len > 1 {
				if _, ok := b.Address(model.Addr(addr + 1 + (m.len-2)/2)); ok {
					return !s.fail(P, "lookup", "lookup/mid-instruction", ev, "Block.Address finds an instruction in the middle of %#x", addr)
				}
			}
		}
	}
	return true
}

func validIdx(i, n int) bool { return i >= 0 && i < n }

func (e *Engine) Execute(tr core.Trace, ctx *core.Ctx) {
	t := tr.(*Trace)
	var instrs []parser.Instruction
	var err error
	if _, _, p := core.Guard(func() { instrs, err = buildInstrs(t) }); p || err != nil || len(instrs) == 0 {
		ctx.Probe("untranslatable_program")
		return
	}
	mk := func() (*deps.Code, error) {
		cp := make([]parser.Instruction, len(instrs))
		copy(cp, instrs)
		if t.Shuffle != 0 {
			r := core.NewRand(t.Shuffle)
			for i := len(cp) - 1; i > 0; i-- {
				j := r.Intn(i + 1)
				cp[i], cp[j] = cp[j], cp[i]
			}
		}
		return deps.NewCode(model.Addr(t.Entry), cp)
	}
	var code *deps.Code
	fn, msg, panicked := core.Guard(func() { code, err = mk() })
	if panicked {
		ctx.Fail(ctx.Prop, "no-crash", "panic/"+fn+"/newcode", -1, "deps.NewCode panicked: %s", msg)
		return
	}
	if err != nil {
		ctx.Probe("newcode_rejected")
		return
	}
	s := &sim{ctx: ctx, t: t, code: code, orig: instrs, sets: map[uint64]rwSets{}, lookupsOK: !t.LateLookups}
	for _, in := range instrs {
		s.sets[uint64(in.Addr)] = setsOf(in.Effects, in.Type, uint64(in.Addr)+uint64(len(in.Bytes)))
	}
	for _, b := range code.Blocks() {
		mb := &mBlock{begin: uint64(b.Begin())}
		for _, in := range b.Instructions() {
			mb.seq = append(mb.seq, mIns{uint64(in.OrigAddr()), uint64(in.Len())})
		}
		s.model = append(s.model, mb)
	}
	ctx.Note("code %d blocks %d instrs", code.Len(), code.NumInstr())

	accepted := 0
	moved := map[uint64]bool{} // block begins whose order changed
	check := func(ev int) bool {
		var ok bool
		fn, msg, panicked := core.Guard(func() { ok = s.invariants(ev) })
		if panicked {
			ctx.Fail("C07", "no-crash", "panic/"+fn+"/observe", ev, "observing the code panicked: %s", msg)
			return false
		}
		return ok
	}
	if !check(-1) {
		return
	}
	if ctx.Wants("C06") && !s.probePairs(-1, nil) {
		return
	}

	c05points := map[int]bool{len(t.Ops) - 1: true, len(t.Ops) / 3: true, 2 * len(t.Ops) / 3: true}

	for i, op := range t.Ops {
		ctx.Event(i, fmt.Sprintf("%s b%d %d->%d %#x", op.K, op.B, op.From, op.To, op.Addr))
		nb := len(s.model)
		switch op.K {
		case "imove":
			bi := ((op.B % nb) + nb) % nb
			b := code.Index(bi)
			mb := s.model[bi]
			n := len(mb.seq)
			valid := validIdx(op.From, n) && validIdx(op.To, n)
			want := valid
			if valid {
				lb, ub := b.LowerBound(op.From), b.UpperBound(op.From)
				if op.To > op.From && op.To > ub {
					want = false
				}
				if op.To < op.From && op.To < lb {
					want = false
				}
			}
			before := s.snapshot()
			var merr error
			fn, msg, panicked := core.Guard(func() { merr = b.Move(op.From, op.To) })
			if panicked {
				ctx.Fail("C07", "no-crash", "panic/"+fn+"/imove", i, "Block.Move(%d,%d) panicked: %s", op.From, op.To, msg)
				return
			}
			ctx.Note("imove -> %v", merr == nil)
			cls := "valid"
			if !valid {
				cls = "invalid-index"
				ctx.Fault("move_invalid_index")
			} else if !want {
				cls = "out-of-bounds"
				ctx.Fault("move_out_of_bounds")
			}
			if (merr == nil) != want {
				if s.fail("C07", "admission", "admission/"+cls+"/"+map[bool]string{true: "accepted", false: "rejected"}[merr == nil], i,
					"Block.Move(%d,%d) in block %d returned %v; indices valid=%v, reported bounds say accept=%v\n%s", op.From, op.To, bi, merr, valid, want, before) {
					return
				}
			}
			if merr != nil {
				if after := s.snapshot(); after != before {
					if s.fail("C07", "rejected-unchanged", "rejected-unchanged/imove", i, "rejected move changed the code:\nbefore\n%safter\n%s", before, after) {
						return
					}
				}
			} else {
				rotate(mb.seq, op.From, op.To)
				if op.From != op.To {
					accepted++
					moved[mb.begin] = true
					ctx.Probe("imove_accepted")
					if d := op.To - op.From; d > 1 || d < -1 {
						ctx.Probe("imove_accepted_distance>1")
					}
				}
			}
		case "bmove":
			valid := validIdx(op.From, nb) && validIdx(op.To, nb)
			before := s.snapshot()
			var merr error
			fn, msg, panicked := core.Guard(func() { merr = code.Move(op.From, op.To) })
			if panicked {
				ctx.Fail("C07", "no-crash", "panic/"+fn+"/bmove", i, "Code.Move(%d,%d) panicked: %s", op.From, op.To, msg)
				return
			}
			ctx.Note("bmove -> %v", merr == nil)
			if !valid {
				ctx.Fault("move_invalid_index")
			}
			if (merr == nil) != valid {
				if s.fail("C07", "admission", "admission/bmove", i, "Code.Move(%d,%d) with %d blocks returned %v", op.From, op.To, nb, merr) {
					return
				}
			}
			if merr != nil {
				if after := s.snapshot(); after != before {
					if s.fail("C07", "rejected-unchanged", "rejected-unchanged/bmove", i, "rejected block move changed the code:\nbefore\n%safter\n%s", before, after) {
						return
					}
				}
			} else {
				if !s.lookupsOK {
					s.lookupsOK = true
					ctx.Probe("first_lookup_after_a_block_move")
				}
				x := s.model[op.From]
				if op.From < op.To {
					copy(s.model[op.From:op.To], s.model[op.From+1:op.To+1])
				} else {
					copy(s.model[op.To+1:op.From+1], s.model[op.To:op.From])
				}
				s.model[op.To] = x
				if op.From != op.To {
					ctx.Probe("bmove_accepted")
				}
			}
		case "lookup":
			if !s.lookupsOK {
				continue
			}
			var wantBlock *mBlock
			wantIns := false
			for _, mb := range s.model {
				a := mb.begin
				for _, m := range mb.seq {
					if op.Addr >= a && op.Addr < a+m.len {
						wantBlock = mb
						wantIns = op.Addr == a
					}
					a += m.len
				}
			}
			var b deps.Block
			var ok, iok bool
			fn, msg, panicked := core.Guard(func() {
				b, ok = code.Address(model.Addr(op.Addr))
				if ok {
					_, iok = b.Address(model.Addr(op.Addr))
				}
			})
			if panicked {
				ctx.Fail("C07", "no-crash", "panic/"+fn+"/lookup", i, "lookup of %#x panicked: %s", op.Addr, msg)
				return
			}
			ctx.Note("lookup -> %v %v", ok, iok)
			if ok != (wantBlock != nil) || (ok && uint64(b.Begin()) != wantBlock.begin) {
				if s.fail("C07", "lookup", "lookup/any-address-block", i, "Code.Address(%#x) found=%v, model block=%v", op.Addr, ok, wantBlock != nil) {
					return
				}
			}
			if ok && iok != wantIns {
				if s.fail("C07", "lookup", "lookup/any-address-instruction", i, "Block.Address(%#x) found=%v, model says instruction start=%v\n%s", op.Addr, iok, wantIns, s.snapshot()) {
					return
				}
			}
			if wantBlock == nil {
				ctx.Probe("lookup_outside_code")
			} else if !wantIns {
				ctx.Probe("lookup_mid_instruction")
			}
		case "bounds":
			// observational; bounds are part of every snapshot
		default:
			continue
		}
		if !check(i) {
			return
		}
		if ctx.Wants("C06") {
			var only *mBlock
			if op.K == "imove" {
				only = s.model[((op.B%nb)+nb)%nb]
			}
			if op.K == "imove" || op.K == "bmove" {
				if !s.probePairs(i, only) {
					return
				}
			}
		}
		if ctx.Wants("C05") && c05points[i] {
			if !s.compareBehaviour(i, moved) {
				return
			}
		}
		ctx.State(fmt.Sprintf("%s:%s", op.K, s.shape()))
	}
	if accepted > 0 {
		ctx.MarkNonTrivial()
	}
	if ctx.Wants("C05") && len(t.Ops) == 0 {
		s.compareBehaviour(-1, moved)
	}
}

// shape: per block (in current order) the permutation class of its
// instructions relative to address order.
func (s *sim) shape() string {
	var sb strings.Builder
	for _, mb := range s.model {
		idx := make([]int, len(mb.seq))
		sorted := append([]mIns(nil), mb.seq...)
		sort.Slice(sorted, func(i, j int) bool { return sorted[i].orig < sorted[j].orig })
		pos := map[uint64]int{}
		for i, m := range sorted {
			pos[m.orig] = i
		}
		inv := 0
		for i, m := range mb.seq {
			idx[i] = pos[m.orig]
			if idx[i] != i {
				inv++
			}
		}
		fmt.Fprintf(&sb, "%d/%d;", len(mb.seq), inv)
	}
	return sb.String()
}

// probePairs is the C06 oracle: every adjacent pair that is independent by
// the statement's own wording must be swappable (and swapped back).
func (s *sim) probePairs(ev int, only *mBlock) bool {
	for bi, mb := range s.model {
		if only != nil && mb != only {
			continue
		}
		b := s.code.Index(bi)
		n := len(mb.seq)
		for i := 0; i+1 < n; i++ {
			a, c := s.sets[mb.seq[i].orig], s.sets[mb.seq[i+1].orig]
			term := i+1 == n-1 && c.realJump
			if !independent(a, c, term) {
				s.ctx.Probe("pair_dependent")
				continue
			}
			s.ctx.Probe("pair_independent")
			before := s.snapshot()
			var e1, e2 error
			fn, msg, panicked := core.Guard(func() {
				e1 = b.Move(i, i+1)
				if e1 == nil {
					e2 = b.Move(i+1, i)
				}
			})
			if panicked {
				s.ctx.Fail("C06", "no-crash", "panic/"+fn+"/swap", ev, "swap probe panicked: %s", msg)
				return false
			}
			s.ctx.Note("swap b%d %d -> %v %v", bi, i, e1 == nil, e2 == nil)
			if e1 != nil {
				kind := s.pairKind(a, c)
				if s.fail("C06", "swap", "swap-refused/"+kind, ev,
					"adjacent instructions %d and %d of block %d (%s | %s) are independent by the statement but Move(%d,%d) was refused: %v\n%s",
					i, i+1, bi, s.describe(mb.seq[i].orig), s.describe(mb.seq[i+1].orig), i, i+1, e1, before) {
					return false
				}
				continue
			}
			if e2 != nil || s.snapshot() != before {
				if s.fail("C06", "swap", "swap-back", ev, "swapping %d,%d in block %d and back did not restore the code (back move error %v)", i, i+1, bi, e2) {
					return false
				}
				return false // model no longer matches
			}
		}
	}
	return true
}

func (s *sim) pairKind(a, b rwSets) string {
	k := func(x rwSets) string {
		switch {
		case x.typ.MemOrder() && x.memAccess():
			return "amo"
		case x.typ.MemOrder():
			return "memorder"
		case x.writesIP:
			return "ipwrite"
		case len(x.memW) > 0:
			return "store"
		case len(x.memR) > 0:
			return "load"
		case len(x.regW) == 0 && len(x.regR) == 0:
			return "nop"
		default:
			return "alu"
		}
	}
	return k(a) + "+" + k(b)
}

func (s *sim) describe(orig uint64) string {
	for _, in := range s.orig {
		if uint64(in.Addr) == orig {
			return fmt.Sprintf("%#x %s", orig, in.Details.String())
		}
	}
	return fmt.Sprintf("%#x", orig)
}

// ---- C05: original vs. reordered block through the real emulator ----

type provider struct {
	seed uint64
	asks int
}

func (p *provider) val(tag string, a uint64) byte {
	h := core.HashString(tag) ^ p.seed
	return byte(core.SplitMix64(h ^ core.SplitMix64(a)))
}

func (p *provider) Register(key expr.Key, w expr.Width) expr.Const {
	p.asks++
	bs := make([]byte, w)
	for i := range bs {
		bs[i] = p.val("reg:"+string(key), uint64(i))
	}
	return expr.NewConst(bs, w)
}

func (p *provider) Memory(key expr.Key, addr model.Addr, w expr.Width) expr.Const {
	p.asks++
	bs := make([]byte, w)
	for i := range bs {
		bs[i] = p.val("mem:"+string(key), uint64(addr)+uint64(i))
	}
	return expr.NewConst(bs, w)
}

type outcome struct {
	err   string
	regs  string
	mem   string
	ip    uint64
	steps int
}

func (s *sim) regKeys() []string {
	set := map[string]bool{}
	for _, rs := range s.sets {
		for k := range rs.regR {
			set[k] = true
		}
		for k := range rs.regW {
			set[k] = true
		}
	}
	delete(set, string(expr.IPKey))
	ks := make([]string, 0, len(set))
	for k := range set {
		ks = append(ks, k)
	}
	sort.Strings(ks)
	return ks
}

// runBlock emulates n steps from addr on code, from the machine state derived
// from seed (fully known register file, lazily supplied memory).
// With end != 0 the run goes on until control leaves [addr, end) or comes
// back to addr (at most 4n steps): for a basic block that is exactly n steps,
// for a "block" with a jump target in its middle it is not.
func (s *sim) runBlock(code *deps.Code, addr uint64, n int, seed uint64, end ...uint64) (o outcome) {
	prov := &provider{seed: seed}
	st := state.New()
	if s.t.Layered {
		for _, rs := range s.sets {
			for _, set := range []map[string]bool{rs.memR, rs.memW} {
				for k := range set {
					if _, ok := st.Mems[expr.Key(k)]; !ok {
						base, _ := memory.NewBytes(nil)
						st.Mems[expr.Key(k)] = memory.NewOverlay(base, memory.NewSparse())
					}
				}
			}
		}
	}
	for _, k := range s.regKeys() {
		st.Regs.Store(expr.Key(k), prov.Register(expr.Key(k), 8), 8)
	}
	em := emulator.New(code, model.Addr(addr), prov, st)
	fn, msg, panicked := core.Guard(func() {
		limit := n
		if len(end) == 1 {
			limit = 4 * n
		}
		for i := 0; i < limit; i++ {
			prev := uint64(em.MustIP())
			if _, err := em.Step(); err != nil {
				o.err = "step error"
				break
			}
			o.steps++
			if len(end) == 1 {
				ip := uint64(em.MustIP())
				if ip < addr || ip >= end[0] || ip == addr {
					break
				}
				// Still inside the block. Falling through to the next
				// instruction is the block going on. A jump that lands
				// inside the block continues the run only if the landing
				// address is a constant target of the instruction (then the
				// "block" has a jump target in its middle); where a register
				// sends control is no property of the block.
				if b, ok := code.Address(model.Addr(prev)); ok {
					if in, ok := b.Address(model.Addr(prev)); ok && uint64(in.End()) != ip && !s.sets[uint64(in.OrigAddr())].constTgt[ip] {
						break
					}
				}
			}
		}
		o.ip = uint64(em.MustIP())
		var sb strings.Builder
		keys := []string{}
		for k := range st.Regs.Values() {
			if k != expr.IPKey {
				keys = append(keys, string(k))
			}
		}
		sort.Strings(keys)
		for _, k := range keys {
			v := st.Regs.Values()[expr.Key(k)]
			c, ok := v.(expr.Const)
			if !ok {
				fmt.Fprintf(&sb, "%s=<non-const>;", k)
				continue
			}
			bs := make([]byte, 8)
			copy(bs, c.Bytes())
			fmt.Fprintf(&sb, "%s=%x;", k, bs)
		}
		o.regs = sb.String()
		// memory: every byte either run knows, with the provider background
		// for unknown ones, rendered over the union later; here: known bytes.
		var mb strings.Builder
		mk := []string{}
		for k := range st.Mems {
			mk = append(mk, string(k))
		}
		sort.Strings(mk)
		for _, k := range mk {
			for _, iv := range st.Mems.Blocks(expr.Key(k)).Intervals() {
				for a := iv.Begin(); a < iv.End(); a++ {
					ex, ok := st.Mems.Load(expr.Key(k), a, 1)
					if !ok {
						continue
					}
					c, isC := exprtransform.ConstFold(ex).(expr.Const)
					if !isC {
						continue
					}
					// bytes equal to the background are indistinguishable
					// from never-touched memory: skip them so that "known"
					// vs "unknown" does not matter.
					if c.Bytes()[0] == prov.val("mem:"+k, uint64(a)) {
						continue
					}
					fmt.Fprintf(&mb, "%s[%#x]=%02x;", k, a, c.Bytes()[0])
				}
			}
		}
		o.mem = mb.String()
	})
	if panicked {
		o.err = "panic in " + fn + ": " + msg
	}
	return o
}

func (s *sim) compareBehaviour(ev int, moved map[uint64]bool) bool {
	if !s.lookupsOK {
		return true
	}
	var fresh *deps.Code
	var err error
	if _, _, p := core.Guard(func() {
		cp := make([]parser.Instruction, len(s.orig))
		copy(cp, s.orig)
		fresh, err = deps.NewCode(model.Addr(s.t.Entry), cp)
	}); p || err != nil {
		return true
	}
	begins := make([]uint64, 0, len(s.model))
	for _, mb := range s.model {
		begins = append(begins, mb.begin)
	}
	sort.Slice(begins, func(i, j int) bool { return begins[i] < begins[j] })
	for _, mb := range s.model {
		// is the order different from address order?
		changed := false
		for i := 1; i < len(mb.seq); i++ {
			if mb.seq[i-1].orig > mb.seq[i].orig {
				changed = true
			}
		}
		if !changed {
			continue
		}
		s.ctx.Probe("block_compared")
		nextOnlyMoved := false
		sorted := append([]mIns(nil), mb.seq...)
		sort.Slice(sorted, func(i, j int) bool { return sorted[i].orig < sorted[j].orig })
		for i, m := range mb.seq {
			rs := s.sets[m.orig]
			if rs.writesIP && !rs.realJump && sorted[i].orig != m.orig {
				nextOnlyMoved = true
			}
		}
		for k := 0; k < 3; k++ {
			seed := core.SplitMix64(s.t.VSeed + uint64(k)*977)
			blockEnd := mb.begin
			for _, m := range mb.seq {
				blockEnd += m.len
			}
			a := s.runBlock(fresh, mb.begin, len(mb.seq), seed, blockEnd)
			b := s.runBlock(s.code, mb.begin, len(mb.seq), seed, blockEnd)
			s.ctx.Note("c05 block %#x seed %d: %s %d | %s %d", mb.begin, k, a.err, a.steps, b.err, b.steps)
			if a.err != "" {
				// The original order itself cannot be run to its end (the
				// emulator refuses an access reaching the end of the
				// address space, an open C03 finding, or crashes): that
				// is C03's business and leaves nothing to compare.
				s.ctx.Probe("original_fails_skipped")
				continue
			}
			if a != b {
				cls := "state-differs"
				switch {
				case strings.HasPrefix(a.err, "panic") || strings.HasPrefix(b.err, "panic"):
					cls = "emulator-panic"
				case nextOnlyMoved:
					cls = "next-only-jump-moved"
				case a.ip != b.ip:
					cls = "control-transfer-differs"
				case a.regs != b.regs:
					cls = "registers-differ"
				case a.mem != b.mem:
					cls = "memory-differs"
				}
				if s.fail("C05", "reorder-preserves-behaviour", "reorder/"+cls, ev,
					"block %#x: original order ends with ip=%#x steps=%d err=%q regs{%s} mem{%s}; accepted reordering ends with ip=%#x steps=%d err=%q regs{%s} mem{%s}\n%s",
					mb.begin, a.ip, a.steps, a.err, a.regs, a.mem, b.ip, b.steps, b.err, b.regs, b.mem, s.snapshot()) {
					return false
				}
				break
			}
		}
	}
	// Reordering blocks never changes any instruction's address (C07 checks
	// that after every event) or behaviour: one step from each instruction of
	// blocks that kept their order must equal the fresh code's step.
	cnt := 0
	for _, mb := range s.model {
		inOrder := true
		for i := 1; i < len(mb.seq); i++ {
			if mb.seq[i-1].orig > mb.seq[i].orig {
				inOrder = false
			}
		}
		if !inOrder {
			continue
		}
		for _, m := range mb.seq {
			if cnt >= 12 {
				break
			}
			cnt++
			seed := core.SplitMix64(s.t.VSeed ^ m.orig)
			a := s.runBlock(fresh, m.orig, 1, seed)
			b := s.runBlock(s.code, m.orig, 1, seed)
			if strings.HasPrefix(a.err, "panic") || (a.err != "" && b.err != "") {
				continue
			}
			if a != b {
				if s.fail("C05", "block-move-preserves-behaviour", "blockmove/behaviour", ev,
					"instruction %#x behaves differently after block moves: %+v vs %+v", m.orig, a, b) {
					return false
				}
			}
		}
	}
	return true
}

func (e *Engine) Describe(prop string) core.Description {
	d := core.Description{QuickRuns: 16000}
	gen := "Each run = one generated code (3 of 4 runs: synthetic ISA given as parser.Instruction values with lengths 1-8 bytes, arbitrary register read/write sets, loads/stores on 1-2 memory keys, memory-order / syscall / CPU-state flags, constant / conditional / register / next-instruction jump targets, address gaps; 1 of 4: real RV64IMA words lifted by the real front end) partitioned by the real deps.NewCode, then a seeded history of 1-60 (thorough: up to 150) events: instruction moves and block moves with valid, boundary, just-outside, negative and too-large indices, address lookups (instruction starts, mid-instruction, gaps, outside) and bounds queries. "
	switch prop {
	case "C07":
		d.Rule = gen + "After EVERY event: move accepted iff indices valid and target within the bounds reported before the move; rejected move leaves a full rendered snapshot unchanged; accepted move = rotation in the sequence model; every instruction within its own bounds, addresses = prefix sums from block start, Idx = position, Code.Address/Block.Address find each instruction only at its start, every instruction after all VerifDeps predecessors, block moves permute Blocks() only. Non-trivial = at least one accepted move that changed an order; distinct = distinct event-log hashes among those."
	case "C06":
		d.Rule = gen + "At the initial state and after every move: every adjacent pair that is independent by the statement's own five clauses (computed by the harness from the effects with its own expression walker) is probed with Move(i,i+1) on the real block, which must be accepted, then undone (snapshot must be restored). Non-trivial = at least one accepted history move (newly adjacent pairs); distinct = distinct event-log hashes among those."
		d.QuickRuns = 10000
	case "C05":
		d.Rule = gen + "At 3 points of the history every block whose order differs from address order is emulated (real emulator.Step, one step per instruction from the block start) on a freshly built unmoved code and on the moved code from 3 identical pseudo-random machine states (fully known register file, memory supplied lazily and byte-consistently by a simulated provider); final registers, memory and instruction pointer must be equal; instructions of unmoved blocks are single-stepped on both codes after block moves. Non-trivial = at least one accepted order-changing move; distinct = distinct event-log hashes among those."
		d.QuickRuns = 24000
	}
	d.ComponentsReal = []string{"deps.NewCode (basic-block partition, dependency finders)", "deps.Block.Move/LowerBound/UpperBound/Address", "deps.Code.Move/Address", "riscv.Parser (real-word runs)", "emulator.Step + state + memory (C05)"}
	d.ComponentsStub = []string{"construction of parser.Instruction from a lifted model.Instruction (5 lines replicating parser.newInstruction)"}
	d.Assumptions = []string{
		"dependency edges are read through the verif hook Block.VerifDeps",
		"sequence model and independence computation are harness code written from the property statements",
		"sampling, not enumeration",
	}
	return d
}
