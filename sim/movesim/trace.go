// Package movesim simulates histories of instruction moves, block moves and
// lookups on mltwist's movable code model (deps.Code / deps.Block) against a
// sequence model, probes adjacent independent pairs, and compares original and
// reordered blocks through the real emulator (C05, C06, C07).
package movesim

import (
	"encoding/json"
	"mltwist/internal/consoleui/verifsim/core"
	"mltwist/internal/consoleui/verifsim/refeval"
)

// Eff is one effect of a synthetic instruction: a register store (Reg set) or
// a memory store (Mem set).
type Eff struct {
	Reg  string     `json:"reg,omitempty"`
	Mem  string     `json:"mem,omitempty"`
	W    int        `json:"w"`
	Val  *refeval.J `json:"val"`
	Addr *refeval.J `json:"addr,omitempty"`
}

// Ins is one instruction of the generated code: either a synthetic one
// (Effs/Type given directly as parser.Instruction) or a real RISC-V word
// (Word set; lifted by the real front end).
type Ins struct {
	Addr uint64 `json:"addr"`
	Len  int    `json:"len"`
	Type uint64 `json:"type,omitempty"`
	Effs []Eff  `json:"effs,omitempty"`
	Name string `json:"name"`
	Word *uint32 `json:"word,omitempty"`
}

// Op is one event of the history.
type Op struct {
	K    string `json:"k"` // imove bmove lookup bounds
	B    int    `json:"b,omitempty"`
	From int    `json:"from,omitempty"`
	To   int    `json:"to,omitempty"`
	Addr uint64 `json:"addr,omitempty"`
}

type Trace struct {
	Ins   []Ins  `json:"ins"`
	Entry uint64 `json:"entry"`
	Ops   []Op   `json:"ops"`
	VSeed uint64 `json:"vseed"`
	// LateLookups: no address is looked up (and nothing is emulated) before
	// the first accepted block move - an index built on first use must not
	// assume the initial block order
	LateLookups bool `json:"late_lookups,omitempty"`
	// Shuffle != 0: the instruction list is handed to deps.NewCode in a
	// pseudo-random order derived from it (NewCode sorts by address itself)
	Shuffle uint64 `json:"shuffle,omitempty"`
	// Layered: the emulated machine's memories are the tool's layering (an
	// empty read-only byte memory under a writable sparse layer) instead of
	// bare sparse memories
	Layered bool `json:"layered,omitempty"`
}

func (t *Trace) Len() int { return len(t.Ops) }

func (t *Trace) clone() *Trace {
	c := *t
	c.Ins = append([]Ins(nil), t.Ins...)
	c.Ops = append([]Op(nil), t.Ops...)
	return &c
}

func (t *Trace) Without(from, to int) core.Trace {
	c := t.clone()
	c.Ops = append(append([]Op(nil), t.Ops[:from]...), t.Ops[to:]...)
	return c
}

func (t *Trace) Simplify(i int) []core.Trace {
	var out []core.Trace
	if i == -1 {
		// Drop one instruction (leaves an address gap, hence may split a
		// block; candidates that no longer build are simply rejected).
		for k := len(t.Ins) - 1; k >= 0; k-- {
			if len(t.Ins) <= 1 {
				break
			}
			c := t.clone()
			c.Ins = append(append([]Ins(nil), t.Ins[:k]...), t.Ins[k+1:]...)
			if t.Entry == t.Ins[k].Addr {
				c.Entry = c.Ins[0].Addr
			}
			out = append(out, c)
		}
		// Drop one effect of one instruction.
		for k, in := range t.Ins {
			for e := range in.Effs {
				c := t.clone()
				ni := in
				ni.Effs = append(append([]Eff(nil), in.Effs[:e]...), in.Effs[e+1:]...)
				c.Ins[k] = ni
				out = append(out, c)
			}
			if in.Type != 0 {
				c := t.clone()
				ni := in
				ni.Type = 0
				c.Ins[k] = ni
				out = append(out, c)
			}
		}
		return out
	}
	return nil
}

func decode(raw json.RawMessage) (core.Trace, error) {
	t := &Trace{}
	if err := json.Unmarshal(raw, t); err != nil {
		return nil, err
	}
	return t, nil
}
