package movesim

import (
	"encoding/json"
	"fmt"
	"mltwist/internal/consoleui/verifsim/core"
	"mltwist/internal/consoleui/verifsim/refeval"
	"mltwist/internal/consoleui/verifsim/rvref"
	"mltwist/pkg/expr"
	"mltwist/pkg/model"
)

type Engine struct{}

func init() { core.Register(&Engine{}) }

func (*Engine) Name() string    { return "movesim" }
func (*Engine) Props() []string { return []string{"C05", "C06", "C07"} }
func (*Engine) Decode(raw json.RawMessage) (core.Trace, error) {
	return decode(raw)
}

const ipKey = "#r:w:ip"

type gen struct {
	r    *core.Rand
	regs []string
	mems []string
}

func (g *gen) reg() string { return g.regs[g.r.Intn(len(g.regs))] }
func (g *gen) mem() string { return g.mems[g.r.Intn(len(g.mems))] }

func (g *gen) operand(w int) *refeval.J {
	if g.r.Chance(1, 4) {
		return refeval.ConstU(g.r.InterestingU64(), w)
	}
	return refeval.RegJ(g.reg(), w)
}

func (g *gen) addrExpr() *refeval.J {
	if g.r.Chance(1, 2) {
		if g.r.Chance(1, 2) {
			// a hot spot of a few bytes: accesses of different widths nest
			// and overlap there
			return refeval.ConstU(0x8010+uint64(g.r.Intn(8)), 8)
		}
		return refeval.ConstU(0x8000+uint64(g.r.Intn(32)), 8)
	}
	return refeval.BinJ(int(expr.Add), refeval.RegJ(g.reg(), 8), refeval.ConstU(uint64(g.r.Intn(16)), 8), 8)
}

func (g *gen) alu() *refeval.J {
	w := 8
	if g.r.Chance(1, 5) {
		w = 4
	}
	op := g.r.Range(int(expr.Add), int(expr.Nand))
	if g.r.Chance(1, 6) {
		return refeval.LessJ(g.operand(w), g.operand(w), g.operand(w), g.operand(w), w)
	}
	return refeval.BinJ(op, g.operand(w), g.operand(w), w)
}

// Generate builds a code (synthetic ISA, or real RV64 words for one run in
// four) and a history of moves and lookups.
func (e *Engine) Generate(r *core.Rand, prop string, tier string) core.Trace {
	if r.Chance(1, 4) {
		return e.generateReal(r, prop, tier)
	}
	g := &gen{r: r}
	nr := r.Range(2, 6)
	for i := 0; i < nr; i++ {
		g.regs = append(g.regs, fmt.Sprintf("r%d", i))
	}
	g.mems = []string{"m0"}
	if r.Bool() {
		g.mems = append(g.mems, "m1")
	}
	if r.Chance(1, 4) {
		// a memory space that carries the name of a register (two name
		// spaces: they have nothing to do with each other)
		g.mems = append(g.mems, g.regs[r.Intn(len(g.regs))])
	}

	t := &Trace{VSeed: r.Uint64() >> 12}
	n := r.Range(1, 14)
	if r.Chance(1, 3) {
		n = r.Range(10, 40)
	}
	fixedLen := 0
	if r.Bool() {
		fixedLen = []int{1, 2, 4, 4, 8}[r.Intn(5)]
	}
	addr := uint64(0x1000)
	switch r.Intn(4) {
	case 0:
		addr = 0
	case 1:
		addr = uint64(r.Intn(1 << 20))
	}
	gapP := r.Intn(12) // percent
	for i := 0; i < n; i++ {
		l := fixedLen
		if l == 0 {
			l = r.Range(1, 8)
		}
		if i > 0 && r.Intn(100) < gapP {
			addr += uint64(r.Range(1, 9))
		}
		t.Ins = append(t.Ins, Ins{Addr: addr, Len: l})
		addr += uint64(l)
	}

	// swarm weights of instruction kinds
	wAlu, wLoad, wStore := r.Range(1, 10), r.Range(0, 6), r.Range(0, 6)
	wNop, wOrder, wSpec := r.Range(0, 2), r.Range(0, 2), r.Range(0, 2)
	wJmp, wCond, wRegJ, wNext := r.Range(0, 2), r.Range(0, 2), r.Range(0, 1), r.Range(0, 3)
	if r.Chance(1, 3) {
		wJmp, wCond, wRegJ = 0, 0, 0
	}
	weights := []int{wAlu * 3, wLoad, wStore, wNop, wOrder, wSpec, wJmp, wCond, wRegJ, wNext}

	target := func() uint64 { return t.Ins[r.Intn(len(t.Ins))].Addr }
	for i := range t.Ins {
		in := &t.Ins[i]
		next := in.Addr + uint64(in.Len)
		switch r.Weighted(weights) {
		case 0:
			in.Name = "alu"
			in.Effs = []Eff{{Reg: g.reg(), W: 8, Val: g.alu()}}
			if r.Chance(1, 8) { // two outputs
				in.Effs = append(in.Effs, Eff{Reg: g.reg(), W: 8, Val: g.alu()})
			}
		case 1:
			in.Name = "load"
			w := []int{1, 2, 4, 8}[r.Intn(4)]
			in.Effs = []Eff{{Reg: g.reg(), W: 8, Val: refeval.MemJ(g.mem(), g.addrExpr(), w)}}
		case 2:
			in.Name = "store"
			w := []int{1, 2, 4, 8}[r.Intn(4)]
			in.Effs = []Eff{{Mem: g.mem(), W: w, Val: g.operand(8), Addr: g.addrExpr()}}
			if r.Chance(1, 6) { // read-modify-write of one location by an ordinary instruction
				in.Name = "rmw"
				m, a := in.Effs[0].Mem, in.Effs[0].Addr
				in.Effs = []Eff{{Mem: m, W: w, Val: refeval.BinJ(int(expr.Add), refeval.MemJ(m, a, w), g.operand(w), w), Addr: a}}
			} else if r.Chance(1, 5) { // store pair: two writes, mostly into the same space
				in.Name = "store-pair"
				m := in.Effs[0].Mem
				if r.Chance(1, 4) {
					m = g.mem()
				}
				in.Effs = append(in.Effs, Eff{Mem: m, W: w, Val: g.operand(8), Addr: g.addrExpr()})
			}
		case 3:
			in.Name = "nop"
		case 4:
			in.Name = "fence"
			in.Type = uint64(model.TypeMemOrder)
			if r.Chance(1, 3) { // atomic-like: memory order + access
				in.Name = "amo"
				m := g.mem()
				a := g.addrExpr()
				in.Effs = []Eff{{Reg: g.reg(), W: 8, Val: refeval.MemJ(m, a, 8)}, {Mem: m, W: 8, Val: g.operand(8), Addr: a}}
			}
		case 5:
			if r.Bool() {
				in.Name, in.Type = "syscall", uint64(model.TypeSyscall)
			} else {
				in.Name, in.Type = "cpustate", uint64(model.TypeCPUStateChange)
				if r.Bool() {
					in.Effs = []Eff{{Reg: g.reg(), W: 8, Val: g.operand(8)}}
				}
			}
		case 6:
			in.Name = "jump"
			in.Effs = []Eff{{Reg: ipKey, W: 8, Val: refeval.ConstU(target(), 8)}}
			if r.Chance(1, 3) { // and link
				in.Effs = append(in.Effs, Eff{Reg: g.reg(), W: 8, Val: refeval.ConstU(next, 8)})
			}
		case 7:
			in.Name = "branch"
			in.Effs = []Eff{{Reg: ipKey, W: 8, Val: refeval.LessJ(refeval.RegJ(g.reg(), 8), refeval.RegJ(g.reg(), 8),
				refeval.ConstU(target(), 8), refeval.ConstU(next, 8), 8)}}
			if r.Chance(1, 3) {
				in.Name = "branch-relative"
				in.Effs = []Eff{{Reg: ipKey, W: 8, Val: refeval.BinJ(int(expr.Add), refeval.ConstU(in.Addr, 8),
					refeval.LessJ(refeval.RegJ(g.reg(), 8), refeval.RegJ(g.reg(), 8), refeval.ConstU(target()-in.Addr, 8), refeval.ConstU(uint64(in.Len), 8), 8), 8)}}
			}
		case 8:
			in.Name = "regjump"
			in.Effs = []Eff{{Reg: ipKey, W: 8, Val: refeval.RegJ(g.reg(), 8)}}
		case 9:
			// control transfer whose only target is the next instruction
			in.Name = "jump-next"
			if r.Bool() {
				in.Effs = []Eff{{Reg: ipKey, W: 8, Val: refeval.ConstU(next, 8)}}
			} else {
				in.Name = "branch-next"
				in.Effs = []Eff{{Reg: ipKey, W: 8, Val: refeval.LessJ(refeval.RegJ(g.reg(), 8), refeval.RegJ(g.reg(), 8),
					refeval.ConstU(next, 8), refeval.ConstU(next, 8), 8)}}
			}
			if r.Chance(1, 3) {
				// pc-relative: the arithmetic sits above the condition, the
				// target only becomes a constant once the condition is taken out
				in.Name = "branch-next-relative"
				l := uint64(in.Len)
				in.Effs = []Eff{{Reg: ipKey, W: 8, Val: refeval.BinJ(int(expr.Add), refeval.ConstU(in.Addr, 8),
					refeval.LessJ(refeval.RegJ(g.reg(), 8), refeval.RegJ(g.reg(), 8), refeval.ConstU(l, 8), refeval.ConstU(l, 8), 8), 8)}}
			}
			if r.Chance(1, 6) {
				// the same, with two nests of conditions whose combinations
				// are many (5 x 4) and all add up to the next address
				in.Name = "branch-next-many-ways"
				l := uint64(in.Len)
				a := uint64(r.Intn(int(l) + 1))
				nest := func(n int, v uint64) *refeval.J {
					x := refeval.ConstU(v, 8)
					for k := 1; k < n; k++ {
						x = refeval.LessJ(refeval.RegJ(g.reg(), 8), refeval.RegJ(g.reg(), 8), refeval.ConstU(v, 8), x, 8)
					}
					return x
				}
				in.Effs = []Eff{{Reg: ipKey, W: 8, Val: refeval.BinJ(int(expr.Add), refeval.ConstU(in.Addr, 8),
					refeval.BinJ(int(expr.Add), nest(5, a), nest(4, l-a), 8), 8)}}
			}
			if r.Chance(1, 3) {
				in.Effs = append(in.Effs, Eff{Reg: g.reg(), W: 8, Val: g.operand(8)})
			}
		}
	}
	t.Entry = target()
	genOps(r, t, tier)
	return t
}

func genOps(r *core.Rand, t *Trace, tier string) {
	t.LateLookups = r.Chance(1, 3)
	t.Layered = r.Bool()
	if r.Chance(1, 4) {
		t.Shuffle = 1 + r.Uint64()>>1
	}
	n := r.Range(1, 12)
	if r.Chance(1, 3) {
		n = r.Range(13, 60)
	}
	if tier == "thorough" && r.Chance(1, 6) {
		n = r.Range(60, 150)
	}
	hi := len(t.Ins) + 1
	if hi > 14 {
		hi = 14
	}
	idx := func() int {
		switch r.Intn(12) {
		case 0:
			return -1
		case 1:
			return hi + r.Intn(3)
		default:
			return r.Intn(r.Range(1, hi))
		}
	}
	for i := 0; i < n; i++ {
		switch r.Weighted([]int{55, 15, 20, 10}) {
		case 0:
			from := idx()
			to := from
			switch r.Intn(6) {
			case 0:
				to = idx()
			case 1, 2:
				to = from + r.Range(1, 3)
			case 3, 4:
				to = from - r.Range(1, 3)
			}
			t.Ops = append(t.Ops, Op{K: "imove", B: r.Intn(8), From: from, To: to})
		case 1:
			t.Ops = append(t.Ops, Op{K: "bmove", From: r.Range(-1, 7), To: r.Range(-1, 7)})
		case 2:
			in := t.Ins[r.Intn(len(t.Ins))]
			a := in.Addr
			switch r.Intn(5) {
			case 0:
				a += uint64(r.Intn(in.Len + 2)) // mid-instruction / next / gap
			case 1:
				a -= uint64(r.Intn(3))
			case 2:
				a = r.Uint64()
			}
			t.Ops = append(t.Ops, Op{K: "lookup", Addr: a})
		default:
			t.Ops = append(t.Ops, Op{K: "bounds", B: r.Intn(8), From: idx()})
		}
	}
}

// generateReal assembles real RV64IMA words; effects come from the real
// front end (riscv.Parser) in the executor.
func (e *Engine) generateReal(r *core.Rand, prop string, tier string) core.Trace {
	t := &Trace{VSeed: r.Uint64() >> 12}
	n := r.Range(1, 14)
	if r.Chance(1, 3) {
		n = r.Range(10, 40)
	}
	base := uint64(0x10000 + 4*r.Intn(1024))
	o := rvref.ProgOpts{Regs: r.Range(2, 6), JumpPct: r.Intn(10), MemPct: r.Range(0, 40), GapPct: r.Intn(8), NoBadJumps: true}
	if r.Bool() {
		// memory-heavy blocks over one or two fixed base registers: loads and
		// stores of different widths that overlap and abut each other
		o.MemPct = r.Range(40, 90)
		o.PtrRegs = [][]int{{7}, {7, 8}}[r.Intn(2)]
		o.Regs = r.Range(2, 5)
	}
	prog := rvref.RandomProgram(r, base, n, o)
	for _, pi := range prog {
		w := pi.Word
		t.Ins = append(t.Ins, Ins{Addr: pi.Addr, Len: 4, Word: &w, Name: pi.Text})
	}
	t.Entry = t.Ins[r.Intn(len(t.Ins))].Addr
	genOps(r, t, tier)
	return t
}
