// Package emusim steps generated RV64IMA programs through the real pipeline
// (ELF loader -> lifter -> code model -> emulator over Overlay(Bytes, Sparse))
// next to an independent RISC-V interpreter. The second party of the
// emulator - the state provider asked for unknown registers and memory, and
// the operator who edits the state between steps - is simulated and every
// request is an event with its own oracle (C03, C04).
package emusim

import (
	"mltwist/internal/consoleui/verifsim/uisim"
	"encoding/hex"
	"encoding/json"
	"fmt"
	"mltwist/internal/consoleui/verifsim/core"
	"mltwist/internal/consoleui/verifsim/imggen"
	"mltwist/internal/consoleui/verifsim/rvref"
	"mltwist/internal/emulator"
	"mltwist/internal/exprtransform"
	"mltwist/internal/riscv"
	"mltwist/internal/state"
	"mltwist/internal/state/memory"
	"mltwist/pkg/expr"
	"mltwist/pkg/model"
	"sort"
	"strconv"
	"strings"
)

type Op struct {
	K    string `json:"k"` // step opreg opmem oppc
	Reg  int    `json:"reg,omitempty"`
	Val  uint64 `json:"val,omitempty"`
	Addr uint64 `json:"addr,omitempty"`
	Hex  string `json:"hex,omitempty"`
}

type Range struct {
	Addr uint64 `json:"addr"`
	Len  int    `json:"len"`
}

// MoreSeg: see Trace.More.
type MoreSeg struct {
	Gap int    `json:"gap"`
	Hex string `json:"hex"`
}

type Trace struct {
	Prog     []rvref.ProgIns   `json:"prog"`
	Entry    uint64            `json:"entry"`
	DataAddr uint64            `json:"data_addr"`
	Data     string            `json:"data"`
	Bss      int               `json:"bss"`
	Gap2     int               `json:"gap2,omitempty"`  // hole between the data segment and a second one (0 = none)
	Data2    string            `json:"data2,omitempty"` // bytes of the second data segment
	More     []MoreSeg         `json:"more,omitempty"`  // further data segments, each Gap bytes (0 = exactly adjacent) behind the previous one
	Seed     uint64            `json:"seed"`
	RegInit  map[string]uint64 `json:"reg_init,omitempty"` // "5" -> value
	KnownReg []int             `json:"known_reg,omitempty"`
	KnownMem []Range           `json:"known_mem,omitempty"`
	Ops      []Op              `json:"ops"`
	// Tool: the run is a tool-tier scenario on the real binary (uisim/tool.go)
	// instead of an in-process emulation; nothing else of the trace is used.
	Tool *uisim.ToolScenario `json:"tool,omitempty"`
}

func (t *Trace) Len() int {
	if t.Tool != nil {
		return t.Tool.K // a tool-tier trace is minimised by dropping emulations
	}
	return len(t.Ops)
}
func (t *Trace) clone() *Trace {
	c := *t
	c.Ops = append([]Op(nil), t.Ops...)
	c.Prog = append([]rvref.ProgIns(nil), t.Prog...)
	c.KnownReg = append([]int(nil), t.KnownReg...)
	c.KnownMem = append([]Range(nil), t.KnownMem...)
	return &c
}
func (t *Trace) Without(from, to int) core.Trace {
	if t.Tool != nil {
		return &Trace{Seed: t.Seed, Tool: t.Tool.Without(from, to)}
	}
	c := t.clone()
	c.Ops = append(append([]Op(nil), t.Ops[:from]...), t.Ops[to:]...)
	return c
}
func (t *Trace) Simplify(i int) []core.Trace {
	var out []core.Trace
	if i != -1 || t.Tool != nil {
		return nil
	}
	// replace an instruction that is not the entry by a nop (addi x0,x0,0):
	// keeps all addresses and jump targets valid
	nop := rvref.Enc("addi", 0, 0, 0, 0)
	for k := range t.Prog {
		if t.Prog[k].Word == nop {
			continue
		}
		c := t.clone()
		c.Prog[k].Word, c.Prog[k].Name, c.Prog[k].Text = nop, "addi", "addi x0, x0, 0"
		out = append(out, c)
	}
	for k := range t.KnownReg {
		c := t.clone()
		c.KnownReg = append(append([]int(nil), t.KnownReg[:k]...), t.KnownReg[k+1:]...)
		out = append(out, c)
	}
	for k := range t.KnownMem {
		c := t.clone()
		c.KnownMem = append(append([]Range(nil), t.KnownMem[:k]...), t.KnownMem[k+1:]...)
		out = append(out, c)
	}
	return out
}

type Engine struct{}

func init() { core.Register(&Engine{}) }

func (*Engine) Name() string    { return "emusim" }
func (*Engine) Props() []string { return []string{"C03", "C04"} }
func (*Engine) Decode(raw json.RawMessage) (core.Trace, error) {
	t := &Trace{}
	if err := json.Unmarshal(raw, t); err != nil {
		return nil, err
	}
	return t, nil
}

const winB = 0x30000 // never part of the image
const winC = 0x7f0100000040 // never part of the image either, above 2^32

const sigNarrow = "narrow-register-fill"

func (e *Engine) Generate(r *core.Rand, prop string, tier string) core.Trace {
	t := &Trace{Seed: r.Uint64() >> 8, RegInit: map[string]uint64{}}
	n := r.Range(1, 12)
	if r.Chance(1, 3) {
		n = r.Range(12, 48)
	}
	base := uint64(0x10000 + 4*r.Intn(2048))
	o := rvref.ProgOpts{Regs: r.Range(1, 4), PtrRegs: []int{5, 6}, JumpPct: r.Intn(16), MemPct: r.Range(5, 50),
		GapPct: r.Intn(6), CSRPct: r.Intn(6), SysPct: r.Intn(4),
		WImm: r.Range(1, 8), WReg: r.Range(1, 8), WShift: r.Range(1, 5), WW: r.Range(1, 6), WMul: r.Range(1, 6), WUpper: r.Range(1, 2)}
	if r.Chance(1, 4) {
		o.MemPct = r.Range(50, 90)
	}
	if r.Chance(1, 4) {
		amos := rvref.Names("AMO")
		o.FavAMO = amos[r.Intn(len(amos))]
	}
	t.Prog = rvref.RandomProgram(r, base, n, o)
	t.Entry = t.Prog[0].Addr
	if r.Chance(1, 4) {
		t.Entry = t.Prog[r.Intn(len(t.Prog))].Addr
	}
	t.DataAddr = uint64(0x20000 + r.Intn(32))
	dl := r.Range(1, 40)
	t.Data = hex.EncodeToString(r.Bytes(dl))
	t.Bss = r.Intn(3) * r.Intn(16)
	if r.Chance(1, 3) {
		// a second image block a few bytes behind the first: one access can
		// start in one block, cross the hole and end in the other
		t.Gap2 = r.Range(1, 7)
		t.Data2 = hex.EncodeToString(r.Bytes(r.Range(1, 16)))
		if r.Chance(1, 2) {
			// groups of exactly adjacent image blocks with holes between the groups
			for k := r.Range(1, 4); k > 0; k-- {
				g := 0
				if r.Chance(1, 3) {
					g = r.Range(1, 7)
				}
				t.More = append(t.More, MoreSeg{Gap: g, Hex: hex.EncodeToString(r.Bytes(r.Range(1, 12)))})
			}
		}
	}
	// pointer registers are steered into one of two small windows: the data
	// segment of the image (accesses overlap earlier ones, straddle the end
	// of the image) and a window of memory nobody has ever touched
	win := func() uint64 {
		switch r.Intn(6) {
		case 0:
			if r.Chance(1, 3) {
				return winC + uint64(r.Intn(24)) // pointers with non-zero upper bytes
			}
			return winB + uint64(r.Intn(24))
		case 1:
			return t.DataAddr + uint64(dl+t.Bss+r.Intn(t.Gap2+1+12*len(t.More))) - uint64(r.Intn(9)) // around the end of the image / the holes
		case 2:
			return t.Prog[len(t.Prog)-1].Addr + 4 - uint64(r.Intn(8)) // reads straddling the end of the code image
		default:
			return t.DataAddr + uint64(r.Intn(dl+8))
		}
	}
	t.RegInit["5"], t.RegInit["6"] = win(), win()
	if r.Chance(1, 15) {
		t.RegInit["5"] = ^uint64(0) - uint64(r.Intn(8)) // accesses wrapping around 2^64 (own signature)
	}
	for x := 1; x <= 6; x++ {
		if r.Chance(1, 3) {
			t.KnownReg = append(t.KnownReg, x)
		}
	}
	if r.Chance(1, 6) {
		t.KnownReg = append(t.KnownReg, 31)
	}
	for i := r.Intn(3); i > 0; i-- {
		t.KnownMem = append(t.KnownMem, Range{Addr: win() - uint64(r.Intn(4)), Len: r.Range(1, 12)})
	}
	steps := r.Range(1, 30)
	if r.Chance(1, 4) {
		steps = r.Range(30, 200)
	}
	if tier == "thorough" && r.Chance(1, 10) {
		steps = r.Range(200, 600)
	}
	pOp := r.Intn(12)
	for i := 0; i < steps; i++ {
		if r.Intn(100) < pOp {
			switch r.Intn(5) {
			case 0, 1:
				v := r.InterestingU64()
				reg := r.Range(1, 6)
				if reg >= 5 && r.Chance(3, 4) {
					v = win()
				}
				t.Ops = append(t.Ops, Op{K: "opreg", Reg: reg, Val: v})
			case 2, 3:
				t.Ops = append(t.Ops, Op{K: "opmem", Addr: win(), Hex: hex.EncodeToString(r.Bytes(r.Range(1, 8)))})
			default:
				a := t.Prog[r.Intn(len(t.Prog))].Addr
				switch r.Intn(6) {
				case 0:
					a += 2 // middle of an instruction
				case 1:
					a = t.Prog[len(t.Prog)-1].Addr + 4 // just behind the code
				}
				t.Ops = append(t.Ops, Op{K: "oppc", Val: a})
			}
		}
		t.Ops = append(t.Ops, Op{K: "step"})
	}
	// drawn last, so that every other choice of the run is what it was before
	// the tool tier existed: one run in 250 drives the real binary
	every := 250
	if tier == "thorough" {
		every = 2500 // a child process costs as much as a few hundred in-process runs
	}
	if r.Chance(1, every) {
		return &Trace{Seed: t.Seed, Tool: uisim.GenToolScenario(r)}
	}
	return t
}

// ---- reference memory ----

type refMem struct {
	seed    uint64
	written map[uint64]byte
	image   map[uint64]byte
}

func (m *refMem) Read(a uint64) byte {
	if b, ok := m.written[a]; ok {
		return b
	}
	if b, ok := m.image[a]; ok {
		return b
	}
	return byte(core.SplitMix64(m.seed ^ core.SplitMix64(a)))
}
func (m *refMem) Write(a uint64, b byte) { m.written[a] = b }

// roMem reads the reference memory and discards writes; flippedMem also
// complements every byte read (dependency analysis on throw-away machines).
type roMem struct{ m *refMem }

func (r roMem) Read(a uint64) byte   { return r.m.Read(a) }
func (r roMem) Write(uint64, byte)   {}

type flippedMem struct{ m *refMem }

func (f flippedMem) Read(a uint64) byte { return ^f.m.Read(a) }
func (f flippedMem) Write(uint64, byte) {}

// ---- simulated provider ----

type run struct {
	ctx     *core.Ctx
	t       *Trace
	m       *rvref.Machine
	mem     *refMem
	st      *state.State
	ev      int
	curCSR  int               // CSR number of the instruction being stepped (-1 none)
	csrKey  map[string]int    // learnt key -> CSR number
	csrNum  map[int]string    // CSR number -> key
	knownR  map[string]bool   // registers the emulator has ever known
	askedR  map[string]bool   // registers ever requested
	knownM  map[uint64]bool   // bytes the emulator has ever known
	askedM  map[uint64]bool   // bytes ever requested
	starts  map[uint64]uint32 // instruction start -> word
	stop    bool
	inStep  bool
	request int
	narrow  map[string]bool // registers filled narrower than 8 bytes with lost upper bytes
	// what the provider supplied and nothing has overwritten since
	suppliedR map[string]supplied
	suppliedM map[uint64]byte
}

func (r *run) fail(prop, oracle, sig string, format string, args ...interface{}) {
	if r.ctx.Fail(prop, oracle, sig, r.ev, format, args...) {
		r.stop = true
	} else if prop == r.ctx.Prop {
		r.stop = true // known finding: no resynchronisation in this engine, the run ends
	}
}

func regKeyNum(key string) (int, bool) {
	if strings.HasPrefix(key, "x") {
		if n, err := strconv.Atoi(key[1:]); err == nil && n >= 0 && n < 32 {
			return n, true
		}
	}
	return 0, false
}

func constLE(v uint64, w int) expr.Const {
	bs := make([]byte, w)
	for i := 0; i < w && i < 8; i++ {
		bs[i] = byte(v >> (8 * uint(i)))
	}
	return expr.NewConst(bs, expr.Width(w))
}

func (r *run) Register(key expr.Key, w expr.Width) expr.Const {
	k := string(key)
	r.request++
	r.ctx.Fault("provider_request")
	r.ctx.Note("provider reg %s %d", k, w)
	if !r.inStep {
		r.fail("C04", "provider", "provider/outside-step", "provider asked for register %s outside of a step", k)
	}
	if r.knownR[k] {
		r.fail("C04", "provider-unknown-only", "provider/known-register", "provider asked for register %s which the emulator already knew (pre-known, written or supplied before)", k)
	}
	if r.askedR[k] {
		r.fail("C04", "provider-once", "provider/register-twice", "provider asked for register %s a second time", k)
	}
	adversarial := r.knownR[k] && r.ctx.Prop == "C03"
	r.askedR[k], r.knownR[k] = true, true
	if int(w) < 8 {
		r.ctx.Probe("register_requested_narrow")
	}
	var v uint64
	if n, ok := regKeyNum(k); ok {
		v = r.m.X[n]
		if int(w) < 8 && v != maskW(v, int(w)) {
			// The emulator fills a 64-bit register from an answer narrower
			// than the register and treats the register as fully known
			// from now on: the upper bytes are lost. When this is a listed
			// known finding (or another property is being checked) the
			// reference is resynchronised to what the emulator assumes,
			// so that the rest of the run is still checked.
			r.narrow[k] = true
			if r.ctx.Prop != "C03" || r.ctx.Tolerate[sigNarrow] {
				r.ctx.Fail("C03", "state", sigNarrow, r.ev, "register %s (=%#x) was requested with %d bytes only; the emulator then treats the 64-bit register as known with zero upper bytes", k, v, w)
				v = maskW(v, int(w))
				r.m.X[n] = v
				delete(r.narrow, k)
			}
		}
	} else if strings.HasPrefix(k, "csr") && r.curCSR >= 0 {
		r.bindCSR(k, r.curCSR)
		v = r.m.CSR[r.curCSR]
		if _, ok := r.m.CSR[r.curCSR]; !ok {
			v = r.m.CSRInit(r.curCSR)
			r.m.CSR[r.curCSR] = v
		}
	} else {
		r.fail("C03", "provider", "provider/strange-register", "provider asked for a register that is no RISC-V state: %s", k)
	}
	if adversarial {
		v = ^v // see Memory
		r.ctx.Probe("wrong_answer_for_known_register")
	}
	r.suppliedR[k] = supplied{v: maskW(v, int(w)), w: int(w)}
	return constLE(v, int(w))
}

// supplied: what the provider answered for a register (until overwritten).
type supplied struct {
	v uint64
	w int
}

func (r *run) bindCSR(key string, n int) {
	if old, ok := r.csrKey[key]; ok && old != n {
		r.fail("C03", "csr-naming", "csr/two-numbers-one-register", "CSR numbers %#x and %#x are both kept in register %s", old, n, key)
	}
	if old, ok := r.csrNum[n]; ok && old != key {
		r.fail("C03", "csr-naming", "csr/one-number-two-registers", "CSR number %#x is kept in registers %s and %s", n, old, key)
	}
	r.csrKey[key], r.csrNum[n] = n, key
}

func (r *run) Memory(key expr.Key, addr model.Addr, w expr.Width) expr.Const {
	r.request++
	r.ctx.Fault("provider_request")
	r.ctx.Note("provider mem %#x %d", addr, w)
	if string(key) != "memory" {
		r.fail("C03", "provider", "provider/strange-memory", "provider asked for memory space %s", key)
	}
	bs := make([]byte, w)
	split := false
	for i := range bs {
		a := uint64(addr) + uint64(i)
		if r.knownM[a] {
			r.fail("C04", "provider-unknown-only", "provider/known-byte", "provider asked for byte %#x which the emulator already knew (image, pre-known, written or supplied before)", a)
		}
		if r.askedM[a] {
			r.fail("C04", "provider-once", "provider/byte-twice", "provider asked for byte %#x a second time", a)
		}
		adversarial := r.knownM[a] && r.ctx.Prop == "C03"
		r.askedM[a], r.knownM[a] = true, true
		bs[i] = r.mem.Read(a)
		if adversarial {
			// a question that must never be asked gets a wrong answer: if the
			// emulator lets it shadow what it knew, C03 sees the divergence
			bs[i] = ^bs[i]
			r.ctx.Probe("wrong_answer_for_known_byte")
		}
		r.suppliedM[a] = bs[i]
	}
	if r.knownM[uint64(addr)-1] || r.knownM[uint64(addr)+uint64(w)] {
		split = true
	}
	if split {
		r.ctx.Probe("request_adjacent_to_known_bytes")
	}
	return expr.NewConst(bs, w)
}

// ---- executor ----

func (e *Engine) Execute(tr core.Trace, ctx *core.Ctx) {
	t := tr.(*Trace)
	if t.Tool != nil {
		vs, harness := uisim.RunToolScenario(t.Tool)
		if harness != "" {
			panic("HARNESS: tool tier: " + harness)
		}
		ctx.Probe("tool_run")
		ctx.Fault("real_binary_reemulation")
		ctx.MarkNonTrivial()
		ctx.State(fmt.Sprintf("tool|k=%d|%v", t.Tool.K, t.Tool.InImage))
		for _, v := range vs {
			ctx.Fail(v.Prop, "tool", v.Sig, 0, "%s", v.Detail)
		}
		return
	}
	if len(t.Prog) == 0 {
		return
	}
	data, _ := hex.DecodeString(t.Data)
	segs := []imggen.DataSeg{{Addr: t.DataAddr, Data: data, Bss: t.Bss}}
	data2, _ := hex.DecodeString(t.Data2)
	data2Addr := t.DataAddr + uint64(len(data)+t.Bss+t.Gap2)
	if t.Gap2 >= 1 && t.Gap2 <= 64 && len(data2) > 0 && t.Bss >= 0 {
		segs = append(segs, imggen.DataSeg{Addr: data2Addr, Data: data2})
	} else {
		data2 = nil
	}
	type extra struct {
		addr uint64
		bs   []byte
	}
	var extras []extra
	if len(data2) > 0 {
		at := data2Addr + uint64(len(data2))
		for i, ms := range t.More {
			bs, _ := hex.DecodeString(ms.Hex)
			if i >= 6 || ms.Gap < 0 || ms.Gap > 64 || len(bs) == 0 || len(bs) > 64 {
				break
			}
			at += uint64(ms.Gap)
			segs = append(segs, imggen.DataSeg{Addr: at, Data: bs})
			extras = append(extras, extra{at, bs})
			at += uint64(len(bs))
		}
	}
	desc := imggen.ExecSegs(t.Prog, t.Entry, segs)
	var ld *imggen.Loaded
	var err error
	fn, msg, panicked := core.Guard(func() { ld, err = imggen.Load(desc) })
	if panicked {
		ctx.Fail("C03", "no-crash", "panic/"+fn+"/load", -1, "loading the program panicked: %s", msg)
		return
	}
	if err != nil {
		ctx.Probe("program_rejected_by_pipeline")
		ctx.Note("load error")
		return
	}
	r := &run{ctx: ctx, t: t, curCSR: -1, csrKey: map[string]int{}, csrNum: map[int]string{},
		suppliedR: map[string]supplied{}, suppliedM: map[uint64]byte{},
		narrow: map[string]bool{}, knownR: map[string]bool{}, askedR: map[string]bool{}, knownM: map[uint64]bool{}, askedM: map[uint64]bool{}, starts: map[uint64]uint32{}}
	r.mem = &refMem{seed: t.Seed, written: map[uint64]byte{}, image: map[uint64]byte{}}
	codeBytes := map[uint64]bool{}
	for _, pi := range t.Prog {
		r.starts[pi.Addr] = pi.Word
		for k := 0; k < 4; k++ {
			r.mem.image[pi.Addr+uint64(k)] = byte(pi.Word >> (8 * uint(k)))
			codeBytes[pi.Addr+uint64(k)] = true
		}
	}
	for i := 0; i < len(data)+t.Bss; i++ {
		b := byte(0)
		if i < len(data) {
			b = data[i]
		}
		r.mem.image[t.DataAddr+uint64(i)] = b
	}
	for i, b := range data2 {
		r.mem.image[data2Addr+uint64(i)] = b
	}
	for _, ex := range extras {
		for i, b := range ex.bs {
			r.mem.image[ex.addr+uint64(i)] = b
		}
	}
	if len(extras) > 0 {
		ctx.Probe("image_with_groups_of_adjacent_blocks")
	}
	if len(data2) > 0 {
		ctx.Probe("image_with_a_small_hole")
	}
	for a := range r.mem.image {
		r.knownM[a] = true
	}
	r.m = &rvref.Machine{CSR: map[int]uint64{}, PC: t.Entry, Mem: r.mem}
	r.m.CSRInit = func(n int) uint64 { return core.SplitMix64(t.Seed ^ uint64(n)*0x9e37) }
	for x := 1; x < 32; x++ {
		r.m.X[x] = core.SplitMix64(t.Seed ^ uint64(x)<<32)
		if x%3 == 0 {
			r.m.X[x] = uint64(int64(int8(r.m.X[x]))) // small signed values too
		}
		if v, ok := t.RegInit[strconv.Itoa(x)]; ok {
			r.m.X[x] = v
		}
	}

	sparse := memory.NewSparse()
	st := &state.State{Regs: state.NewRegMap(), Mems: memory.MemMap{riscv.MemoryKey: memory.NewOverlay(ld.ByteMem, sparse)}}
	r.st = st
	for _, x := range t.KnownReg {
		if x < 1 || x > 31 {
			continue
		}
		k := "x" + strconv.Itoa(x)
		st.Regs.Store(expr.Key(k), constLE(r.m.X[x], 8), 8)
		r.knownR[k] = true
	}
	for _, km := range t.KnownMem {
		if km.Len < 1 || km.Len > 64 {
			continue
		}
		bs := make([]byte, km.Len)
		for i := range bs {
			bs[i] = r.mem.Read(km.Addr + uint64(i))
			r.knownM[km.Addr+uint64(i)] = true
		}
		sparse.Store(model.Addr(km.Addr), expr.NewConst(bs, expr.Width(km.Len)), expr.Width(km.Len))
	}
	var em *emulator.Emulator
	fn, msg, panicked = core.Guard(func() { em = emulator.New(ld.Code, model.Addr(t.Entry), r, st) })
	if panicked {
		ctx.Fail("C03", "no-crash", "panic/"+fn+"/new", -1, "emulator.New panicked: %s", msg)
		return
	}
	r.knownR[string(expr.IPKey)] = true

	steps := 0
	for i, op := range t.Ops {
		if r.stop {
			break
		}
		r.ev = i
		ctx.Event(i, fmt.Sprintf("%s %d %#x %#x", op.K, op.Reg, op.Val, op.Addr))
		switch op.K {
		case "opreg":
			if op.Reg < 1 || op.Reg > 31 {
				continue
			}
			k := "x" + strconv.Itoa(op.Reg)
			st.Regs.Store(expr.Key(k), constLE(op.Val, 8), 8)
			r.m.X[op.Reg] = op.Val
			r.knownR[k] = true
			delete(r.suppliedR, k)
			delete(r.narrow, k)
			ctx.Fault("operator_reg_write")
		case "oppc":
			st.Regs.Store(expr.IPKey, constLE(op.Val, 8), 8)
			r.m.PC = op.Val
			ctx.Fault("operator_pc_write")
			if _, ok := r.starts[op.Val]; !ok {
				ctx.Fault("jump_outside_instruction_start")
			}
		case "opmem":
			bs, _ := hex.DecodeString(op.Hex)
			if len(bs) < 1 || len(bs) > 8 {
				continue
			}
			hit := false
			for k := range bs {
				if codeBytes[op.Addr+uint64(k)] {
					hit = true
				}
			}
			if hit {
				continue // the operator never modifies code either
			}
			st.Mems.Store(riscv.MemoryKey, model.Addr(op.Addr), expr.NewConst(bs, expr.Width(len(bs))), expr.Width(len(bs)))
			for k, b := range bs {
				r.mem.Write(op.Addr+uint64(k), b)
				r.knownM[op.Addr+uint64(k)] = true
				delete(r.suppliedM, op.Addr+uint64(k))
			}
			ctx.Fault("operator_mem_write")
		case "step":
			steps++
			r.step(em, codeBytes)
		}
	}
	if steps > 0 {
		ctx.MarkNonTrivial()
	}
}

func (r *run) snapshot() string {
	var sb strings.Builder
	keys := []string{}
	for k := range r.st.Regs.Values() {
		keys = append(keys, string(k))
	}
	sort.Strings(keys)
	for _, k := range keys {
		if c, ok := r.st.Regs.Values()[expr.Key(k)].(expr.Const); ok {
			fmt.Fprintf(&sb, "%s=%x;", k, c.Bytes())
		} else {
			fmt.Fprintf(&sb, "%s=<non-const>;", k)
		}
	}
	for _, iv := range r.st.Mems.Blocks(riscv.MemoryKey).Intervals() {
		fmt.Fprintf(&sb, "[%#x,%#x)", iv.Begin(), iv.End())
	}
	return sb.String()
}

func u64(c expr.Const) uint64 {
	var v uint64
	for i, b := range c.Bytes() {
		if i < 8 {
			v |= uint64(b) << (8 * uint(i))
		}
	}
	return v
}

func maskW(v uint64, w int) uint64 {
	if w >= 8 {
		return v
	}
	return v & (uint64(1)<<(8*uint(w)) - 1)
}

func (r *run) step(em *emulator.Emulator, codeBytes map[uint64]bool) {
	ctx := r.ctx
	pc := r.m.PC
	word, atStart := r.starts[pc]
	r.curCSR = -1
	if atStart && word&0x7f == 0x73 && (word>>12)&3 != 0 {
		r.curCSR = int(word >> 20)
	}
	before := ""
	if !atStart {
		before = r.snapshot()
	}
	preX := r.m.X
	var sr *emulator.Step
	var err error
	r.inStep = true
	fn, msg, panicked := core.Guard(func() { sr, err = em.Step() })
	r.inStep = false
	name := "?"
	wraps := false
	if atStart {
		// preview on a throw-away copy of the reference (pre-step registers,
		// writes discarded): mnemonic and accessed ranges
		pm := &rvref.Machine{X: preX, CSR: map[int]uint64{}, PC: pc, CSRInit: func(int) uint64 { return 0 },
			Mem: &refMem{seed: r.mem.seed, written: map[uint64]byte{}, image: r.mem.image}}
		if probe, e := pm.Step(word); e == nil {
			name = probe.Name
			for _, a := range append(append([]rvref.Access{}, probe.Loads...), probe.Stores...) {
				if a.Addr+uint64(a.W) <= a.Addr { // wraps, or ends exactly at 2^64
					wraps = true
				}
			}
		}
	}
	if wraps {
		ctx.Probe("access_wraps_around_2^64")
	}
	if panicked {
		sig := "panic/" + fn + "/" + name + "/" + core.MsgClass(msg)
		if wraps {
			sig = "panic/access-wraps-around-2^64"
		}
		r.fail("C03", "no-crash", sig, "emulator.Step panicked at pc %#x (%s): %s", pc, name, msg)
		r.stop = true
		return
	}
	ctx.Note("step pc=%#x %s err=%v", pc, name, err != nil)
	if !atStart {
		ctx.Fault("step_not_at_instruction_start")
		if err == nil {
			r.fail("C03", "fails-iff-not-at-instruction", "step/succeeded-off-instruction", "pc %#x is not the start of a decoded instruction but Step succeeded", pc)
			r.stop = true
			return
		}
		if after := r.snapshot(); after != before {
			r.fail("C03", "fails-iff-not-at-instruction", "step/failed-but-changed-state", "Step failed at pc %#x but changed the state", pc)
		}
		return
	}
	if err != nil {
		sig := "step/failed-at-instruction/" + name
		if wraps {
			sig = "step-fails/access-reaches-end-of-address-space"
			if !r.ctx.Fail("C03", "fails-iff-not-at-instruction", sig, r.ev, "pc %#x is the start of %s but Step failed: %v", pc, name, err) {
				// known finding (or not this check's property): the operator
				// steps over the instruction on both machines and the run goes
				// on - what the provider supplied during the refused step
				// stays supplied
				next := pc + 4
				r.st.Regs.Store(expr.IPKey, constLE(next, 8), 8)
				r.m.PC = next
				ctx.Probe("stepped_over_unsupported_access")
				return
			}
			r.stop = true
			return
		}
		r.fail("C03", "fails-iff-not-at-instruction", sig, "pc %#x is the start of %s but Step failed: %v", pc, name, err)
		r.stop = true
		return
	}
	// Which source registers does the architectural outcome depend on? A
	// source whose perturbation (three different flips) changes nothing the
	// instruction does - e.g. the dividend of a division by x0 - need not be
	// read, so its absence from the step report is not an error.
	outcome := func(x [32]uint64) string {
		csr := map[int]uint64{}
		for k, v := range r.m.CSR {
			csr[k] = v
		}
		wr := map[uint64]byte{}
		for k, v := range r.mem.written {
			wr[k] = v
		}
		pm := &rvref.Machine{X: x, CSR: csr, PC: pc, CSRInit: r.m.CSRInit, Mem: &refMem{seed: r.mem.seed, written: wr, image: r.mem.image}}
		i, e := pm.Step(word)
		if e != nil {
			return "err"
		}
		return fmt.Sprintf("%d=%x pc=%x csr=%x st=%v ld=%v", i.Rd, i.RdVal, i.NextPC, i.CSRNew, i.Stores, i.Loads)
	}
	baseOutcome := outcome(preX)
	// Does the value loaded from memory influence anything (it does not for
	// e.g. amoswap with rd = x0)? Compare with a run on complemented memory.
	loadMatters := func() bool {
		csr := map[int]uint64{}
		for k, v := range r.m.CSR {
			csr[k] = v
		}
		pm := &rvref.Machine{X: preX, CSR: csr, PC: pc, CSRInit: r.m.CSRInit, Mem: flippedMem{r.mem}}
		pb := &rvref.Machine{X: preX, CSR: map[int]uint64{}, PC: pc, CSRInit: r.m.CSRInit, Mem: flippedMem{r.mem}}
		_ = pb
		i, e := pm.Step(word)
		if e != nil {
			return true
		}
		b, _ := (&rvref.Machine{X: preX, CSR: csr, PC: pc, CSRInit: r.m.CSRInit, Mem: roMem{r.mem}}).Step(word)
		if b == nil {
			return true
		}
		return fmt.Sprintf("%d=%x pc=%x st=%v", i.Rd, i.RdVal, i.NextPC, i.Stores) != fmt.Sprintf("%d=%x pc=%x st=%v", b.Rd, b.RdVal, b.NextPC, b.Stores)
	}()
	depends := func(n int) bool {
		for _, m := range []uint64{^uint64(0), 0x5555555555555555, 1, 0x8000000080000000} {
			x := preX
			x[n] ^= m
			if outcome(x) != baseOutcome {
				return true
			}
		}
		return false
	}
	dep := map[int]bool{}
	for _, n := range []int{int((word >> 15) & 31), int((word >> 20) & 31)} {
		if n != 0 {
			dep[n] = depends(n)
		}
	}
	info, rerr := r.m.Step(word)
	if rerr != nil {
		ctx.Probe("reference_cannot_execute")
		r.stop = true
		return
	}
	for _, s := range info.Stores {
		for k := 0; k < s.W; k++ {
			if codeBytes[s.Addr+uint64(k)] {
				ctx.Probe("self_modifying_skipped")
				r.stop = true
				return
			}
			r.knownM[s.Addr+uint64(k)] = true
		}
	}
	// (bytes become known to the emulator by being supplied - marked at the
	// request - or stored; a load the emulator does not perform, e.g. into
	// x0, teaches it nothing)
	if info.Rd != 0 {
		r.knownR["x"+strconv.Itoa(info.Rd)] = true
	}
	ctx.State(name)
	class := operandClass(info, word)
	ctx.State(name + "/" + class)

	// --- the step report ---
	narrow := false
	for n := range info.SrcRegs {
		if r.narrow["x"+strconv.Itoa(n)] {
			narrow = true
		}
	}
	if info.Rd != 0 {
		defer delete(r.narrow, "x"+strconv.Itoa(info.Rd))
	}
	// C04: every later read observes the supplied value until the program (or
	// the operator) overwrites it.
	for k, c := range sr.RegLoads {
		if s, ok := r.suppliedR[string(k)]; ok {
			w := int(c.Width())
			if s.w < w {
				w = s.w
			}
			if maskW(u64(c), w) != maskW(s.v, w) {
				r.fail("C04", "supplied-value-observed", "supplied/register-value-lost", "%s at %#x reads %s = %#x but the provider supplied %#x (width %d) and nothing overwrote it since", name, pc, k, u64(c), s.v, s.w)
			}
		}
	}
	for _, a := range sr.MemLoads {
		for i, b := range a.Value.Bytes() {
			if want, ok := r.suppliedM[uint64(a.Addr)+uint64(i)]; ok && b != want {
				r.fail("C04", "supplied-value-observed", "supplied/byte-value-lost", "%s at %#x reads byte %#x = %#02x but the provider supplied %#02x and nothing overwrote it since", name, pc, uint64(a.Addr)+uint64(i), b, want)
				break
			}
		}
	}
	if info.Rd != 0 {
		delete(r.suppliedR, "x"+strconv.Itoa(info.Rd))
	}
	if info.CSR >= 0 {
		if key, ok := r.csrNum[info.CSR]; ok {
			delete(r.suppliedR, key)
		}
	}
	for _, s := range info.Stores {
		for i := 0; i < s.W; i++ {
			delete(r.suppliedM, s.Addr+uint64(i))
		}
	}
	for k, c := range sr.RegLoads {
		key := string(k)
		if n, ok := regKeyNum(key); ok {
			pre, named := info.SrcRegs[n]
			if !named {
				r.fail("C03", "report", "report/reg-load-not-a-source/"+name, "%s at %#x reports a load of %s which the instruction does not name as a source", name, pc, key)
				continue
			}
			if int(c.Width()) < 8 {
				narrow = true
			}
			if u64(c) != maskW(pre, int(c.Width())) {
				sig := "report/reg-load-value/" + name
				if narrow {
					sig = sigNarrow
				}
				r.fail("C03", "report", sig, "%s reports load %s=%#x (width %d), the register held %#x", name, key, u64(c), c.Width(), pre)
			}
		} else if strings.HasPrefix(key, "csr") {
			if info.CSR < 0 {
				r.fail("C03", "report", "report/csr-load-by-non-csr/"+name, "%s reports a load of %s", name, key)
				continue
			}
			r.bindCSR(key, info.CSR)
			if u64(c) != maskW(info.CSROld, int(c.Width())) {
				r.fail("C03", "report", "report/csr-load-value/"+name, "%s reports load %s=%#x, CSR %#x held %#x", name, key, u64(c), info.CSR, info.CSROld)
			}
		} else {
			r.fail("C03", "report", "report/strange-load/"+name, "%s reports a load of %s", name, key)
		}
	}
	// An instruction whose only architectural effect would be a write to x0
	// has no effect at all; a step that reads nothing for it reports exactly
	// what it did (lenient reading, DESIGN 6.6).
	noEffect := info.Rd == 0 && len(info.Stores) == 0 && !info.Jump && info.CSR < 0
	if noEffect {
		ctx.Probe("instruction_without_effect")
	}
	for n, pre := range info.SrcRegs {
		if noEffect {
			break
		}
		if _, ok := sr.RegLoads[expr.Key("x"+strconv.Itoa(n))]; !ok {
			if !dep[n] {
				ctx.Probe("source_without_influence_not_reported")
				continue
			}
			r.fail("C03", "report", "report/reg-load-missing/"+name, "%s at %#x reads x%d (=%#x) but the step does not report it", name, pc, n, pre)
		}
	}
	for k, c := range sr.RegStores {
		key := string(k)
		switch {
		case k == expr.IPKey:
			if u64(c) != info.NextPC {
				r.fail("C03", "report", "report/ip-store-value/"+name+"/"+class, "%s at %#x reports ip := %#x, reference next pc %#x", name, pc, u64(c), info.NextPC)
			}
		case strings.HasPrefix(key, "csr"):
			if info.CSR < 0 {
				r.fail("C03", "report", "report/csr-store-by-non-csr/"+name, "%s reports a store to %s", name, key)
				continue
			}
			r.bindCSR(key, info.CSR)
			if u64(c) != info.CSRNew {
				r.fail("C03", "report", "report/csr-store-value/"+name, "%s reports %s := %#x, reference %#x", name, key, u64(c), info.CSRNew)
			}
		default:
			n, ok := regKeyNum(key)
			if !ok || n != info.Rd || n == 0 {
				r.fail("C03", "report", "report/reg-store-not-destination/"+name, "%s at %#x reports a store to %s, destination is x%d", name, pc, key, info.Rd)
				continue
			}
			if maskW(u64(c), int(c.Width())) != info.RdVal && !r.stop {
				sig := "report/reg-store-value/" + name + "/" + class
				if narrow {
					sig = sigNarrow
				}
				r.fail("C03", "report", sig, "%s at %#x (%s, word %#08x) reports x%d := %#x, reference %#x; sources %v", name, pc, class, word, info.Rd, u64(c), info.RdVal, fmtRegs(info.SrcRegs))
			}
		}
	}
	if info.Rd != 0 {
		if _, ok := sr.RegStores[expr.Key("x"+strconv.Itoa(info.Rd))]; !ok {
			r.fail("C03", "report", "report/reg-store-missing/"+name, "%s writes x%d but the step does not report it", name, info.Rd)
		}
	}
	sameAccess := func(rep []emulator.MemAccess, ref []rvref.Access, kind string) {
		for _, a := range rep {
			found := false
			for _, b := range ref {
				if uint64(a.Addr) == b.Addr && int(a.Width()) == b.W && u64(a.Value) == b.Val && string(a.Key) == "memory" {
					found = true
				}
			}
			if !found {
				r.fail("C03", "report", "report/mem-"+kind+"-wrong/"+name, "%s at %#x reports a memory %s of %d bytes at %#x = %#x; reference accesses: %+v", name, pc, kind, a.Width(), a.Addr, u64(a.Value), ref)
				return
			}
		}
		for _, b := range ref {
			found := false
			for _, a := range rep {
				if uint64(a.Addr) == b.Addr && int(a.Width()) == b.W {
					found = true
				}
			}
			if !found {
				r.fail("C03", "report", "report/mem-"+kind+"-missing/"+name, "%s at %#x accesses %d bytes at %#x but the step does not report that %s", name, pc, b.W, b.Addr, kind)
				return
			}
		}
	}
	if !r.stop {
		if (noEffect || !loadMatters) && len(sr.MemLoads) == 0 {
			// a load whose value influences nothing and that is not
			// performed at all (load into x0, amoswap with rd = x0)
			if len(info.Loads) > 0 {
				ctx.Probe("load_without_influence_not_performed")
			}
		} else {
			sameAccess(sr.MemLoads, info.Loads, "load")
		}
	}
	if !r.stop {
		sameAccess(sr.MemStores, info.Stores, "store")
	}
	if r.stop {
		return
	}

	// --- the state after the step ---
	var ip uint64
	fn, msg, panicked = core.Guard(func() { ip = uint64(em.MustIP()) })
	if panicked {
		r.fail("C03", "no-crash", "panic/"+fn+"/mustip", "MustIP panicked: %s", msg)
		return
	}
	if ip != r.m.PC {
		r.fail("C03", "state", "state/ip/"+name+"/"+class, "after %s at %#x (word %#08x) the instruction pointer is %#x, reference %#x", name, pc, word, ip, r.m.PC)
		return
	}
	for k, v := range r.st.Regs.Values() {
		key := string(k)
		c, isC := v.(expr.Const)
		if !isC {
			r.fail("C03", "state", "state/non-constant-register", "register %s holds a non-constant after a step", key)
			return
		}
		var want uint64
		if n, ok := regKeyNum(key); ok {
			want = r.m.X[n]
			if n == 0 {
				r.fail("C03", "state", "state/x0-written/"+name, "register x0 appears in the register file after %s", name)
				return
			}
		} else if n, ok := r.csrKey[key]; ok {
			want = r.m.CSR[n]
		} else {
			continue
		}
		if u64(c) != maskW(want, int(c.Width())) {
			sig := "state/register/" + name + "/" + class
			if narrow {
				sig = sigNarrow
			}
			r.fail("C03", "state", sig, "after %s at %#x (%s, word %#08x): %s = %#x (width %d), reference %#x; sources before %v", name, pc, class, word, key, u64(c), c.Width(), want, fmtRegs(info.SrcRegs))
			return
		}
	}
	_ = preX
	// every byte the emulator knows equals the reference byte (checked
	// around this step's accesses and the operator's windows)
	check := map[uint64]bool{}
	for _, a := range append(append([]rvref.Access{}, info.Loads...), info.Stores...) {
		for k := -2; k < a.W+2; k++ {
			check[a.Addr+uint64(k)] = true
		}
	}
	addrs := make([]uint64, 0, len(check))
	for a := range check {
		addrs = append(addrs, a)
	}
	sort.Slice(addrs, func(i, j int) bool { return addrs[i] < addrs[j] })
	for _, a := range addrs {
		if a == ^uint64(0) {
			continue // a range ending exactly at 2^64 is not representable
		}
		var ex expr.Expr
		var ok bool
		fn, msg, panicked := core.Guard(func() { ex, ok = r.st.Mems.Load(riscv.MemoryKey, model.Addr(a), 1) })
		if panicked {
			r.fail("C03", "no-crash", "panic/"+fn+"/memload", "reading emulator memory at %#x panicked: %s", a, msg)
			return
		}
		if !ok {
			continue
		}
		c, isC := exprtransform.ConstFold(ex).(expr.Const)
		if !isC {
			r.fail("C03", "state", "state/non-constant-memory", "memory byte %#x is not a constant", a)
			return
		}
		if c.Bytes()[0] != r.mem.Read(a) {
			r.fail("C03", "state", "state/memory/"+name+"/"+class, "after %s at %#x: memory byte %#x = %#02x, reference %#02x", name, pc, a, c.Bytes()[0], r.mem.Read(a))
			return
		}
	}
	if len(info.Loads)+len(info.Stores) > 0 {
		ctx.Probe("memory_access_checked")
	}
}

func fmtRegs(m map[int]uint64) string {
	ks := make([]int, 0, len(m))
	for k := range m {
		ks = append(ks, k)
	}
	sort.Ints(ks)
	var sb strings.Builder
	for _, k := range ks {
		fmt.Fprintf(&sb, "x%d=%#x ", k, m[k])
	}
	return sb.String()
}

// operandClass: the coarse input class that goes into a signature.
func operandClass(info *rvref.Info, w uint32) string {
	rd, rs1, rs2 := int((w>>7)&31), int((w>>15)&31), int((w>>20)&31)
	var parts []string
	switch rvref.Kind(info.Name) {
	case "I", "S":
		if int32(w) < 0 {
			parts = append(parts, "imm<0")
		} else {
			parts = append(parts, "imm>=0")
		}
	case "SH", "SHW":
		if (w>>20)&63 == 0 {
			parts = append(parts, "shamt=0")
		} else {
			parts = append(parts, "shamt!=0")
		}
	case "B", "J":
		if info.NextPC == info.NextPC&^3 && info.Jump && int32(w) < 0 {
			parts = append(parts, "back")
		}
	case "U":
		if int32(w) < 0 {
			parts = append(parts, "imm<0")
		}
	}
	if rd != 0 && (rd == rs1 || rd == rs2) {
		parts = append(parts, "rd=rs")
	}
	if rd == 0 {
		parts = append(parts, "rd=x0")
	}
	if len(parts) == 0 {
		return "plain"
	}
	return strings.Join(parts, ",")
}

func (e *Engine) Describe(prop string) core.Description {
	d := core.Description{QuickRuns: 8000}
	base := "Each run = one RV64IMA program of 1-48 instructions assembled from weighted templates (ALU reg/imm with negative and boundary immediates, all shift forms with boundary amounts, W-forms, M extension, loads/stores of all widths steered into two small data windows so accesses overlap earlier ones of different width, straddle the end of the program image or touch untouched memory, AMO/LR/SC, CSR ops incl. numbers >= 0x800, forward/backward/next-instruction branches and jumps, jalr, fence/ecall/ebreak; 1-3 code blocks with gaps), built into an ELF image and loaded by the real pipeline; an initial machine state (64-bit registers, CSRs, a background byte function for all memory) of which a random part is pre-known to the emulator; then up to 200 (thorough: 600) events: step, operator register / memory / pc writes between steps. Every provider request is an event answered from the reference machine. "
	switch prop {
	case "C03":
		d.Rule = base + "After EVERY step: Step fails iff the reference pc is not the start of a decoded instruction (then the state is unchanged); otherwise the step report must list exactly the architectural source registers with their pre-values, the destination (and CSR / ip) with the new values, and exactly the accessed memory ranges with their values; every register the emulator knows equals the reference register, every byte it knows around the accesses equals the reference byte, MustIP = reference pc; one register per CSR number; no panic. Non-trivial = at least one step; distinct = distinct event-log hashes."
	case "C04":
		d.Rule = base + "At EVERY provider request: the requested register / every requested byte has never been known to the emulator (pre-known, program image, written by program or operator, supplied before) and has never been requested before; values supplied are checked again by the step-report oracle at every later read. Non-trivial = at least one step; distinct = distinct event-log hashes."
	}
	d.ComponentsReal = []string{"elf loader, parser.Parse, riscv lifter (RV64IMA), deps.NewCode", "emulator.New/Step/MustIP, evaluation report", "state.State, RegMap", "memory.Overlay(Bytes, Sparse)", "exprtransform.ConstFold / expreval", "the real mltwist binary on a pty (tool-tier runs, 1 in 250: consecutive emulations of one run)"}
	d.ComponentsStub = []string{"memory layering of cmd/mltwist/main.go runIU replicated (Overlay(Bytes(program segments), Sparse)) in the in-process runs; the tool-tier runs execute the real wiring"}
	d.Assumptions = []string{
		"rvref (independent RV64IMA+Zicsr interpreter written from the unprivileged specification, with the tool's documented approximations) is the trusted reference",
		"programs do not modify their own code (runs that would are cut short and counted)",
		"the provider follows its documented contract (returns exactly the requested width, truthfully)",
		"sampling, not enumeration",
	}
	return d
}
