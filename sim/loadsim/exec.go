package loadsim

import (
	"bytes"
	"errors"
	"fmt"
	"io"
	"mltwist/internal/consoleui"
	"mltwist/internal/consoleui/disassemble"
	"mltwist/internal/consoleui/emulate"
	"mltwist/internal/consoleui/verifsim/core"
	"mltwist/internal/consoleui/verifsim/elfref"
	"mltwist/internal/consoleui/verifsim/ptyx"
	"mltwist/internal/deps"
	"mltwist/internal/elf"
	"mltwist/internal/parser"
	"mltwist/internal/riscv"
	"mltwist/internal/state"
	"mltwist/internal/state/memory"
	"mltwist/pkg/model"
	"os"
	"os/exec"
	"path/filepath"
	"sort"
	"strings"
	"sync"
	"time"
)

// ---- simulated disk ----

func staleByte(i uint64) byte { return byte(core.SplitMix64(i ^ 0x5eed)) }

// applyFaults applies the storage faults to img; each one is counted only if
// it actually changed what a loader sees.
func applyFaults(img []byte, faults []Fault, ctx *core.Ctx) []byte {
	for i, f := range faults {
		ctx.Event(i, fmt.Sprintf("%s %d %d", f.K, f.A, f.B))
		before := append([]byte(nil), img...)
		switch f.K {
		case "truncate_byte", "truncate_sector":
			if f.A < uint64(len(img)) {
				img = img[:f.A]
			}
		case "torn_write":
			// a prefix of the new image over an older (stale) or zeroed one
			for k := f.A; k < uint64(len(img)); k++ {
				if f.B == 0 {
					img[k] = 0
				} else {
					img[k] = staleByte(k)
				}
			}
		case "lost_sector":
			for k := f.A * 512; k < (f.A+1)*512 && k < uint64(len(img)); k++ {
				if f.B == 0 {
					img[k] = 0
				} else {
					img[k] = staleByte(k)
				}
			}
		case "bitflip_header", "bitflip_body":
			if f.A/8 < uint64(len(img)) {
				img[f.A/8] ^= 1 << (f.A % 8)
			}
		}
		if bytes.Equal(before, img) {
			ctx.Fault(f.K + "_noop")
		} else {
			ctx.Fault(f.K)
		}
	}
	return img
}

var errInjected = errors.New("input/output error (injected)")

// faultyReader serves the image through io.ReaderAt with injected faults.
type faultyReader struct {
	img   []byte
	f     *ReadFault
	reads uint64
	fired bool
}

func (r *faultyReader) ReadAt(p []byte, off int64) (int, error) {
	k := r.reads
	r.reads++
	if off < 0 {
		return 0, errors.New("negative offset")
	}
	if r.f != nil {
		switch r.f.K {
		case "read_eio_at_kth":
			if k == r.f.N {
				r.fired = true
				return 0, errInjected
			}
		case "read_eio_from_offset":
			if uint64(off)+uint64(len(p)) > r.f.N {
				r.fired = true
				n := 0
				if uint64(off) < r.f.N && uint64(off) < uint64(len(r.img)) {
					n = copy(p[:r.f.N-uint64(off)], r.img[off:])
				}
				return n, errInjected
			}
		case "short_read":
			if k == r.f.N && len(p) > 1 && off < int64(len(r.img)) {
				r.fired = true
				n := copy(p[:len(p)/2], r.img[off:])
				return n, io.ErrUnexpectedEOF
			}
		}
	}
	if off >= int64(len(r.img)) {
		return 0, io.EOF
	}
	n := copy(p, r.img[off:])
	if n < len(p) {
		return n, io.EOF
	}
	return n, nil
}

// scratchPath is the per-process scratch image; it is removed after every run
// so nothing is left behind.
func scratchPath() string {
	base := "/dev/shm"
	if st, err := os.Stat(base); err != nil || !st.IsDir() {
		base = filepath.Join(core.VerifDir(), "build")
	}
	return filepath.Join(base, fmt.Sprintf("verif-load-%d-image", os.Getpid()))
}

// dangerous: a PT_LOAD whose zero padding would really be allocated and is
// larger than 64 MiB (a padding above 2^48 bytes cannot be allocated at all:
// make() panics recoverably, so that one is not dangerous).
func dangerous(ref *elfref.File, img []byte) bool {
	if ref == nil {
		return false
	}
	for _, p := range ref.Progs {
		if p.Type != elfref.PTLoad || p.Memsz < p.Filesz {
			continue
		}
		pad := p.Memsz
		if pad > 1<<26 && pad < 1<<48 {
			return true
		}
	}
	return false
}

// slowForChild: a loadable segment between 16 MiB and the loader's bound of
// 1 GiB (above it the image is refused at once).
func slowForChild(ref *elfref.File) bool {
	if ref == nil {
		return false
	}
	for _, p := range ref.Progs {
		if p.Type == elfref.PTLoad && p.Memsz >= p.Filesz && p.Memsz > 1<<24 && p.Memsz <= 1<<30 {
			return true
		}
	}
	return false
}

func sortedBlocks(bs []elfref.Block) []elfref.Block {
	out := make([]elfref.Block, 0, len(bs))
	for _, b := range bs {
		if len(b.Bytes) > 0 {
			out = append(out, b)
		}
	}
	sort.SliceStable(out, func(i, j int) bool { return out[i].Addr < out[j].Addr })
	return out
}

func implBlocks(m *elf.Memory) []elfref.Block {
	var out []elfref.Block
	for _, b := range m.Blocks {
		if b.Len() > 0 {
			out = append(out, elfref.Block{Addr: uint64(b.Begin()), Bytes: b.Bytes()})
		}
	}
	return out
}

func sameBlocks(a, b []elfref.Block) (bool, string) {
	if len(a) != len(b) {
		return false, fmt.Sprintf("%d blocks vs %d", len(a), len(b))
	}
	for i := range a {
		if a[i].Addr != b[i].Addr {
			return false, fmt.Sprintf("block %d at %#x vs %#x", i, a[i].Addr, b[i].Addr)
		}
		if !bytes.Equal(a[i].Bytes, b[i].Bytes) {
			n := len(a[i].Bytes)
			if len(b[i].Bytes) < n {
				n = len(b[i].Bytes)
			}
			k := 0
			for k < n && a[i].Bytes[k] == b[i].Bytes[k] {
				k++
			}
			return false, fmt.Sprintf("block %d at %#x: lengths %d vs %d, first difference at byte %d", i, a[i].Addr, len(a[i].Bytes), len(b[i].Bytes), k)
		}
	}
	return true, ""
}

func headerShape(d *elfref.Desc) string {
	if d == nil {
		return "nodesc"
	}
	return fmt.Sprintf("c%d/d%d/t%d/p%d/s%d", d.Class, d.Data, d.Type, len(d.Progs), len(d.Secs))
}

func errClass(err error) string {
	if err == nil {
		return "ok"
	}
	s := err.Error()
	if i := strings.Index(s, ":"); i > 0 {
		s = s[:i]
	}
	return core.MsgClass(s)
}

func (e *Engine) Execute(tr core.Trace, ctx *core.Ctx) {
	t := tr.(*Trace)
	if ctx.Prop == "C26" {
		e.executeStartup(t, ctx)
		return
	}
	if t.Desc == nil {
		return
	}
	img := applyFaults(elfref.Build(t.Desc), t.Faults, ctx)
	ref, refErr := elfref.Parse(img)
	if refErr != nil {
		ctx.Probe("reference_cannot_parse")
	}
	if dangerous(ref, img) {
		ctx.Probe("skipped_dangerous")
		return
	}

	const P = "C20"
	if t.Child {
		e.childLoad(t, ctx, img, ref)
		return
	}
	var p *elf.Parser
	var err error
	var fr *faultyReader
	fn, msg, panicked := core.Guard(func() {
		if t.Read != nil {
			fr = &faultyReader{img: img, f: t.Read}
			p, err = elf.VerifNewParserFromReaderAt(fr)
		} else {
			path := scratchPath()
			if werr := os.WriteFile(path, img, 0o644); werr != nil {
				panic("HARNESS: cannot write scratch image: " + werr.Error())
			}
			defer os.Remove(path)
			p, err = elf.NewParser(path)
		}
	})
	if panicked {
		ctx.Fail(P, "no-crash", "panic/"+fn+"/open", len(t.Faults), "opening the image panicked: %s", msg)
		return
	}
	defer func() {
		if fr != nil && fr.fired {
			ctx.Fault(t.Read.K)
		} else if fr != nil {
			ctx.Fault(t.Read.K + "_noop")
		}
	}()
	ctx.Note("image %016x open -> %s", core.HashString(string(img)), errClass(err))
	ctx.State(headerShape(t.Desc) + "|open:" + errClass(err))
	if err != nil {
		ctx.Probe("open_rejected")
		return
	}
	defer func() { core.Guard(func() { p.Close() }) }()
	ev := len(t.Faults)

	if ref != nil && (ref.Type == 0 || ref.Type == 1 || ref.Type == 4) {
		if ctx.Fail(P, "type", fmt.Sprintf("type/accepted-%d", ref.Type), ev, "file of type %d (none/relocatable/core) was accepted", ref.Type) {
			return
		}
	}

	var code, mem *elf.Memory
	var cerr, merr error
	if t.Twice && t.Read == nil {
		// an earlier pair of calls on the same parser, results dropped
		if fn, msg, panicked = core.Guard(func() { p.Memory(); p.MachineCode() }); panicked {
			ctx.Fail(P, "no-crash", "panic/"+fn+"/first-call", ev, "the first Memory/MachineCode call panicked: %s", msg)
			return
		}
		ctx.Probe("loaded_twice")
	}
	fn, msg, panicked = core.Guard(func() { code, cerr = p.MachineCode() })
	if panicked {
		ctx.Fail(P, "no-crash", "panic/"+fn+"/machinecode", ev, "MachineCode panicked: %s", msg)
		return
	}
	fn, msg, panicked = core.Guard(func() { mem, merr = p.Memory() })
	if panicked {
		ctx.Fail(P, "no-crash", "panic/"+fn+"/memory", ev, "Memory panicked: %s", msg)
		return
	}
	ctx.Note("code -> %s, memory -> %s", errClass(cerr), errClass(merr))
	ctx.State(headerShape(t.Desc) + "|code:" + errClass(cerr) + "|mem:" + errClass(merr))
	if ref == nil || ref.Unjudgeable != "" {
		ctx.Probe("unjudged")
		return
	}
	ctx.MarkNonTrivial()

	// With a read fault that fired the loader saw fewer bytes than img; an
	// error is fine, a success must still be faithful to img (a read that
	// failed cannot deliver wrong bytes, only none).
	if merr == nil {
		ctx.Probe("memory_loaded")
		want, bad := ref.Segments(img)
		switch {
		case bad == "huge":
			ctx.Probe("unjudged")
		case bad != "":
			if ctx.Fail(P, "memory", "memory/accepted-"+bad, ev, "segments with %s were accepted", bad) {
				return
			}
		case elfref.Wraps(want):
			ctx.Probe("block_reaching_end_of_address_space_unjudged")
		case elfref.Overlap(want):
			if ctx.Fail(P, "memory", "memory/accepted-overlap", ev, "overlapping loadable segments were accepted") {
				return
			}
		default:
			if ok, why := sameBlocks(implBlocks(mem), sortedBlocks(want)); !ok {
				if ctx.Fail(P, "memory", "memory/content", ev, "program memory differs from the loadable segments (file bytes then zeros up to the in-memory size): %s", why) {
					return
				}
			}
		}
		if !blocksSorted(mem) {
			if ctx.Fail(P, "memory", "memory/unsorted", ev, "memory blocks are not sorted / overlap") {
				return
			}
		}
	}
	if cerr == nil {
		ctx.Probe("code_loaded")
		want, bad := ref.CodeSections(img)
		switch {
		case bad != "":
			if ctx.Fail(P, "code", "code/accepted-"+bad, ev, "a code section lying outside the file was accepted") {
				return
			}
		case elfref.Wraps(want):
			ctx.Probe("block_reaching_end_of_address_space_unjudged")
		case elfref.Overlap(want):
			if ctx.Fail(P, "code", "code/accepted-overlap", ev, "overlapping code sections were accepted") {
				return
			}
		default:
			if ok, why := sameBlocks(implBlocks(code), sortedBlocks(want)); !ok {
				if ctx.Fail(P, "code", "code/content", ev, "code image differs from the non-empty executable address-bearing PROGBITS sections: %s", why) {
					return
				}
			}
			// address lookup probes
			for _, a := range t.Probes {
				var got []byte
				fn, msg, panicked := core.Guard(func() { got = code.Address(model.Addr(a)) })
				if panicked {
					ctx.Fail(P, "no-crash", "panic/"+fn+"/address", ev, "Address(%#x) panicked: %s", a, msg)
					return
				}
				var exp []byte
				for _, b := range want {
					if a >= b.Addr && a-b.Addr < uint64(len(b.Bytes)) {
						exp = b.Bytes[a-b.Addr:]
					}
				}
				if !bytes.Equal(got, exp) || (exp == nil) != (got == nil) {
					cls := "wrong-bytes"
					if exp == nil {
						cls = "unmapped-found"
					} else if got == nil {
						cls = "mapped-not-found"
					}
					if ctx.Fail(P, "address", "address/"+cls, ev, "Address(%#x) returned %d bytes, expected %d (bytes from the address to the end of its block, nothing if unmapped)", a, len(got), len(exp)) {
						return
					}
				}
			}
		}
		if !blocksSorted(code) {
			if ctx.Fail(P, "code", "code/unsorted", ev, "code blocks are not sorted / overlap") {
				return
			}
		}
	}
}

// childLoad is the loader as the program itself wires it (parseElf in
// cmd/mltwist/main.go), which the in-process runs above cannot see: the real
// binary is started on the image; when it reaches its first prompt although
// the independent reader says the file must be refused (type none / relocatable
// / core, segments that overlap or whose in-memory size is below their file
// size or that lie outside the file, overlapping code sections), the program
// has accepted a file C20 says is rejected. Errors, and crashes (C26's
// business), are no verdict here.
func (e *Engine) childLoad(t *Trace, ctx *core.Ctx, img []byte, ref *elfref.File) {
	const P = "C20"
	if ref == nil || ref.Unjudgeable != "" {
		ctx.Probe("unjudged")
		return
	}
	if slowForChild(ref) {
		ctx.Probe("skipped_slow_child")
		return
	}
	why := ""
	if ref.Type == 0 || ref.Type == 1 || ref.Type == 4 {
		why = fmt.Sprintf("type-%d", ref.Type)
	}
	if why == "" {
		want, bad := ref.Segments(img)
		switch {
		case bad == "huge":
		case bad != "":
			why = "segments-" + bad
		case elfref.Wraps(want):
		case elfref.Overlap(want):
			why = "segments-overlap"
		}
	}
	if why == "" {
		want, bad := ref.CodeSections(img)
		switch {
		case bad != "":
			why = "code-" + bad
		case elfref.Wraps(want):
		case elfref.Overlap(want):
			why = "code-overlap"
		}
	}
	path := scratchPath()
	if err := os.WriteFile(path, img, 0o644); err != nil {
		panic("HARNESS: cannot write scratch image: " + err.Error())
	}
	defer os.Remove(path)
	cls, status, _, so, se := e.runChild(t, ctx, path)
	ctx.Note("child -> %s (reference: %q)", cls, why)
	ctx.State(headerShape(t.Desc) + "|child:" + cls + "|" + why)
	ctx.Probe("child:" + cls)
	ctx.MarkNonTrivial()
	if why != "" {
		ctx.Probe("child_on_file_to_refuse")
		if cls == "ui-entered-quit-ok" {
			ctx.Fail(P, "child", "child-accepted/"+why, len(t.Faults), "the real binary entered its UI on a file that must be rejected (%s): status %d, stderr %q, stdout tail %q", why, status, tailStr(se, 200), tailStr(so, 200))
		}
	}
}

func blocksSorted(m *elf.Memory) bool {
	for i := 1; i < len(m.Blocks); i++ {
		if m.Blocks[i].Begin() < m.Blocks[i-1].End() {
			return false
		}
	}
	return true
}

// ---- C26: start-up as a whole ----

// replica of cmd/mltwist/main.go run() up to (not including) ui.Run().
func replica(path string) error {
	p, err := elf.NewParser(path)
	if err != nil {
		return fmt.Errorf("cannot create elf parser: %w", err)
	}
	defer p.Close()
	code, err := p.MachineCode()
	if err != nil {
		return fmt.Errorf("machine code cannot be extracted from ELF: %w", err)
	}
	mem, err := p.Memory()
	if err != nil {
		return fmt.Errorf("cannot extract program memory from ELF: %w", err)
	}
	entry := p.Entrypoint()
	rp := riscv.NewParser(riscv.Variant64, riscv.ExtM, riscv.ExtA)
	ins, err := parser.Parse(code, rp)
	if err != nil {
		return fmt.Errorf("instruction parsing failed: %w", err)
	}
	program, err := deps.NewCode(entry, ins)
	if err != nil {
		return fmt.Errorf("cannot parse model: %w", err)
	}
	memBlocks := make([]memory.ByteBlock, len(mem.Blocks))
	for i, b := range mem.Blocks {
		memBlocks[i] = b
	}
	byteMem, err := memory.NewBytes(memBlocks)
	if err != nil {
		return fmt.Errorf("cannot create byte memory of a program: %w", err)
	}
	emulF := func(p *deps.Code, ip model.Addr) (consoleui.Mode, error) {
		m := memory.NewOverlay(byteMem, memory.NewSparse())
		stat := &state.State{Regs: state.NewRegMap(), Mems: memory.MemMap{riscv.MemoryKey: m}}
		return emulate.New(p, ip, stat)
	}
	disass := disassemble.New(program, emulF)
	if _, err := consoleui.New(disass); err != nil {
		return fmt.Errorf("cannot create console UI: %w", err)
	}
	return nil
}

func (e *Engine) executeStartup(t *Trace, ctx *core.Ctx) {
	const P = "C26"
	path := scratchPath()
	os.RemoveAll(path)
	defer os.RemoveAll(path)
	var img []byte
	switch t.Path {
	case "missing":
		ctx.Fault("missing_file")
	case "directory":
		os.Mkdir(path, 0o755)
		ctx.Fault("is_directory")
	case "empty":
		os.WriteFile(path, nil, 0o644)
		ctx.Fault("empty_file")
	case "not_elf":
		os.WriteFile(path, []byte("#!/bin/sh\necho this is not an ELF file\n"), 0o644)
		ctx.Fault("not_elf")
	default:
		if t.Desc == nil {
			return
		}
		img = applyFaults(elfref.Build(t.Desc), t.Faults, ctx)
		if err := os.WriteFile(path, img, 0o644); err != nil {
			panic("HARNESS: cannot write scratch image: " + err.Error())
		}
		if keep := os.Getenv("VERIF_KEEP_IMAGE"); keep != "" {
			os.WriteFile(keep, img, 0o644) // debugging aid: a copy of the image as the tool sees it
		}
	}
	ev := len(t.Faults)
	ref, _ := elfref.Parse(img)
	if t.Child {
		if slowForChild(ref) {
			// tens or hundreds of megabytes that the loader accepts and really
			// allocates: start-up takes the real binary from seconds to a
			// minute, which is no subject of the property and would only trip
			// the child's watchdog
			ctx.Probe("skipped_slow_child")
			return
		}
		e.child(t, ctx, path, ev)
		return
	}
	if dangerous(ref, img) {
		ctx.Probe("skipped_dangerous_in_process")
		return
	}
	var err error
	fn, msg, panicked := core.Guard(func() { err = replica(path) })
	if panicked {
		ctx.Fail(P, "no-crash", "panic/"+fn+"/startup/"+core.MsgClass(msg), ev, "start-up pipeline panicked: %s", msg)
		return
	}
	cls := errClass(err)
	if err == nil {
		cls = "enters-ui"
		ctx.Probe("enters_ui")
	}
	if len(t.Faults) == 0 && t.Path == "" {
		ctx.Probe("faultfree_startup:" + cls)
	}
	ctx.Note("startup -> %s", cls)
	ctx.State(headerShape(t.Desc) + "|" + t.Path + "|" + cls)
	ctx.MarkNonTrivial()
}

// child runs the real binary: stdin is a pty (or /dev/null), output is
// captured; outcome must be "error exit with message" or "UI entered, quit
// works".
func (e *Engine) child(t *Trace, ctx *core.Ctx, path string, ev int) {
	const P = "C26"
	cls, status, entered, so, se := e.runChild(t, ctx, path)
	ctx.Note("child -> %s", cls)
	ctx.State(headerShape(t.Desc) + "|" + t.Path + "|" + t.Args + "|child:" + cls)
	ctx.Probe("child:" + cls)
	ctx.MarkNonTrivial()
	if cls == "crash" {
		first := se
		if i := strings.Index(first, "\n"); i > 0 {
			first = first[:i]
		}
		where := "unknown"
		for _, l := range strings.Split(se, "\n") {
			l = strings.TrimSpace(l)
			if strings.HasPrefix(l, "mltwist/") || strings.HasPrefix(l, "main.") {
				if i := strings.LastIndex(l, "("); i > 0 {
					l = l[:i]
				}
				where = strings.TrimPrefix(l, "mltwist/")
				break
			}
		}
		ctx.Fail(P, "no-crash", "child-crash/"+where+"/"+core.MsgClass(first), ev, "real binary crashed (status %d): %s", status, tailStr(se, 1200))
		return
	}
	if cls == "nonzero-without-message" || cls == "status0-without-ui" {
		ctx.Fail(P, "outcome", "child-outcome/"+cls, ev, "real binary: status %d, entered UI %v, stderr %q, stdout tail %q", status, entered, tailStr(se, 300), tailStr(so, 200))
	}
}

// runChild starts the real binary on path and classifies how it ended.
func (e *Engine) runChild(t *Trace, ctx *core.Ctx, path string) (cls string, status int, entered bool, so, se string) {
	bin := filepath.Join(core.VerifDir(), "build", "mltwist")
	if _, err := os.Stat(bin); err != nil {
		panic("HARNESS: real binary not built: " + bin)
	}
	args := []string{path}
	switch t.Args {
	case "none":
		args = nil
		ctx.Fault("argc_0")
	case "two":
		args = []string{path, path}
		ctx.Fault("argc_2plus")
	case "empty_arg":
		args = []string{""}
		ctx.Fault("arg_empty")
	}
	// ulimit -v keeps a corrupted size field from exhausting the sandbox.
	sh := "ulimit -v 4194304; exec \"$0\" \"$@\""
	cmd := exec.Command("/bin/sh", append([]string{"-c", sh, bin}, args...)...)
	var master *os.File
	if t.Tty {
		m, slavePath, err := ptyx.Open()
		if err != nil {
			panic("HARNESS: cannot open pty: " + err.Error())
		}
		master = m
		defer master.Close()
		slave, err := os.OpenFile(slavePath, os.O_RDWR, 0)
		if err != nil {
			panic("HARNESS: cannot open pty slave: " + err.Error())
		}
		defer slave.Close()
		ptyx.SetSize(master.Fd(), 40, 120)
		cmd.Stdin = slave
	} else {
		ctx.Fault("stdin_not_a_tty")
	}
	var mu sync.Mutex
	var out, errb bytes.Buffer
	cmd.Stdout = &lockedWriter{&mu, &out}
	cmd.Stderr = &lockedWriter{&mu, &errb}
	if err := cmd.Start(); err != nil {
		panic("HARNESS: cannot start child: " + err.Error())
	}
	done := make(chan error, 1)
	go func() { done <- cmd.Wait() }()

	has := func(b *bytes.Buffer, s string) bool {
		mu.Lock()
		defer mu.Unlock()
		return strings.Contains(b.String(), s)
	}
	var werr error
	exited := false
	deadline := time.After(20 * time.Second)
	tick := time.NewTicker(2 * time.Millisecond)
	defer tick.Stop()
	stage := 0
loop:
	for {
		select {
		case werr = <-done:
			exited = true
			break loop
		case <-deadline:
			cmd.Process.Kill()
			<-done
			panic("HARNESS: child did not finish within 20 s (watchdog)")
		case <-tick.C:
			if master == nil {
				continue
			}
			switch stage {
			case 0:
				if has(&out, "Enter command: ") {
					entered = true
					master.Write([]byte("quit\n"))
					stage = 1
				}
			case 1:
				if has(&out, "leaving app") {
					master.Write([]byte("\n"))
					stage = 2
				}
			}
		}
	}
	_ = exited
	mu.Lock()
	so, se = out.String(), errb.String()
	mu.Unlock()
	status = 0
	signaled := false
	if ee, ok := werr.(*exec.ExitError); ok {
		status = ee.ExitCode()
		if status == -1 {
			signaled = true
		}
	} else if werr != nil {
		panic("HARNESS: wait failed: " + werr.Error())
	}
	crashText := strings.Contains(se, "panic:") || strings.Contains(se, "fatal error:") || strings.Contains(se, "goroutine ")
	switch {
	case crashText || signaled:
		cls = "crash"
	case status != 0 && strings.HasPrefix(se, "mltwist: "):
		cls = "error-exit"
	case status != 0:
		cls = "nonzero-without-message"
	case status == 0 && entered:
		cls = "ui-entered-quit-ok"
	default:
		cls = "status0-without-ui"
	}
	return cls, status, entered, so, se
}

func tailStr(s string, n int) string {
	if len(s) > n {
		return s[:n] + "..."
	}
	return s
}

type lockedWriter struct {
	mu *sync.Mutex
	b  *bytes.Buffer
}

func (l *lockedWriter) Write(p []byte) (int, error) {
	l.mu.Lock()
	defer l.mu.Unlock()
	if l.b.Len() < 1<<20 {
		l.b.Write(p)
	}
	return len(p), nil
}

func (e *Engine) Describe(prop string) core.Description {
	d := core.Description{QuickRuns: 10000}
	gen := "Each run = one well-formed ELF image built from a seeded structured description (class 32/64, LE/BE, type none/rel/exec/dyn/core/other, RISC-V or other machine, 0-3 code sections of assembled RV64IMA words or random bytes, data/bss/non-alloc/empty/address-zero/NOBITS-exec/overlapping/out-of-file sections, 0-3 program headers that abut, overlap, nest, lie about sizes) on which 0-3 storage faults are injected (truncation at a byte or sector, torn write over a zeroed or stale image, lost sector, bit flips biased into the headers); fault-free and faulty configurations are separate runs. "
	switch prop {
	case "C20":
		d.Rule = gen + "In 1 of 4 faulty runs the image is served through the io.ReaderAt hook with an I/O error at the k-th read / from an offset, or a short read. Oracle: independent elfref reader over the bytes delivered: success => program memory = loadable segments (available file bytes then zeros), code image = exactly the non-empty executable address-bearing PROGBITS sections, sorted disjoint blocks, Address() probes; none/rel/core, overlapping segments/sections, memsz<filesz must be rejected; an error is always acceptable; no panic. Non-trivial = the loader accepted the file and the reference could judge it; distinct = distinct event-log hashes among those."
		d.ComponentsReal = []string{"elf.NewParser / VerifNewParserFromReaderAt", "elf.Parser.MachineCode/Memory", "elf.Memory.Address", "debug/elf", "the real mltwist binary (1 reader-fault-free run in 16: parseElf of cmd/mltwist/main.go as wired)"}
	case "C26":
		d.QuickRuns = 4000
		d.Rule = gen + "Plus path faults (missing file, directory, empty file, not ELF) and, for the real binary, argument faults (no / two / empty arguments) and stdin not a terminal. 11 of 12 runs execute an in-process replica of main.run() up to consoleui.New with recover() as crash detector; 1 of 12 runs execute the real mltwist binary as a child (stdin = pty, ulimit -v 4 GiB): outcome must be exit status != 0 with a 'mltwist: ' message, or the first screen and prompt appear and quit+ENTER ends it with status 0. Non-trivial = every run that reached a verdict; distinct = distinct event-log hashes."
		d.ComponentsReal = []string{"real mltwist binary (child runs)", "elf loader", "parser.Parse", "riscv.Parser", "deps.NewCode", "memory.NewBytes", "disassemble.New", "consoleui.New"}
		d.ComponentsStub = []string{"in-process replica of cmd/mltwist/main.go run()/runIU() wiring (about 40 lines), cross-checked by the child runs on the same generator"}
	}
	d.Assumptions = []string{
		"elfref (independent header reader) is the trusted reference; images using extended numbering or compressed sections are counted as unjudged",
		"images whose headers demand a zero padding between 64 MiB and 2^48 bytes are not loaded in-process (skipped_dangerous); the child tier runs them under ulimit -v",
		"sampling, not enumeration",
	}
	return d
}
