// Package loadsim puts a simulated disk under mltwist's ELF loader and
// start-up path: well-formed images are generated from a structured
// description, storage faults (truncation, torn and lost writes, bit flips)
// and read faults (I/O errors, short reads) are injected, and the loader's
// answer is judged against the independent elfref reader on the bytes
// actually delivered (C20); start-up as a whole is run in-process (replica of
// main.run) and as the real binary in a child process (C26).
package loadsim

import (
	"bytes"
	"compress/zlib"
	"encoding/binary"
	"encoding/hex"
	"encoding/json"
	"mltwist/internal/consoleui/verifsim/core"
	"mltwist/internal/consoleui/verifsim/elfref"
	"mltwist/internal/consoleui/verifsim/rvref"
)

// Fault is one storage fault event.
type Fault struct {
	K string `json:"k"` // truncate_byte truncate_sector torn_write lost_sector bitflip_header bitflip_body
	A uint64 `json:"a"`
	B uint64 `json:"b,omitempty"`
}

// ReadFault is injected below debug/elf through the ReaderAt hook.
type ReadFault struct {
	K string `json:"k"` // read_eio_at_kth read_eio_from_offset short_read
	N uint64 `json:"n"`
}

type Trace struct {
	Path   string       `json:"path,omitempty"` // "" | missing | directory | empty | not_elf
	Args   string       `json:"args,omitempty"` // "" | none | two | empty_arg
	Desc   *elfref.Desc `json:"desc,omitempty"`
	Faults []Fault      `json:"faults,omitempty"`
	Read   *ReadFault   `json:"read,omitempty"`
	Probes []uint64     `json:"probes,omitempty"`
	Child  bool         `json:"child,omitempty"`
	Tty    bool         `json:"tty,omitempty"`
	// Twice (C20): the loader is asked for the program memory and the code
	// image once before the judged calls (what a parser returns must not
	// depend on what it was asked before)
	Twice bool `json:"twice,omitempty"`
}

func (t *Trace) Len() int { return len(t.Faults) }
func (t *Trace) clone() *Trace {
	c := *t
	c.Faults = append([]Fault(nil), t.Faults...)
	if t.Desc != nil {
		d := *t.Desc
		d.Progs = append([]elfref.Prog(nil), t.Desc.Progs...)
		d.Secs = append([]elfref.Sec(nil), t.Desc.Secs...)
		d.Blobs = append([]elfref.Blob(nil), t.Desc.Blobs...)
		c.Desc = &d
	}
	return &c
}
func (t *Trace) Without(from, to int) core.Trace {
	c := t.clone()
	c.Faults = append(append([]Fault(nil), t.Faults[:from]...), t.Faults[to:]...)
	return c
}
func (t *Trace) Simplify(i int) []core.Trace {
	var out []core.Trace
	if i != -1 || t.Desc == nil {
		return nil
	}
	if t.Read != nil {
		c := t.clone()
		c.Read = nil
		out = append(out, c)
	}
	for k := range t.Desc.Progs {
		c := t.clone()
		c.Desc.Progs = append(append([]elfref.Prog(nil), t.Desc.Progs[:k]...), t.Desc.Progs[k+1:]...)
		out = append(out, c)
	}
	for k := range t.Desc.Secs {
		c := t.clone()
		c.Desc.Secs = append(append([]elfref.Sec(nil), t.Desc.Secs[:k]...), t.Desc.Secs[k+1:]...)
		out = append(out, c)
	}
	if len(t.Probes) > 1 {
		c := t.clone()
		c.Probes = t.Probes[:1]
		out = append(out, c)
	}
	return out
}

type Engine struct{}

func init() { core.Register(&Engine{}) }

func (*Engine) Name() string    { return "loadsim" }
func (*Engine) Props() []string { return []string{"C20", "C26"} }
func (*Engine) Decode(raw json.RawMessage) (core.Trace, error) {
	t := &Trace{}
	if err := json.Unmarshal(raw, t); err != nil {
		return nil, err
	}
	return t, nil
}

func align(x, a uint64) uint64 { return (x + a - 1) / a * a }

// genDesc builds a well-formed image description with swarm-chosen oddities.
func genDesc(r *core.Rand) *elfref.Desc {
	d := &elfref.Desc{Class: 2, Data: 1, Type: 2, Machine: 243}
	if r.Chance(1, 4) {
		d.Class = 1
	}
	if r.Chance(1, 5) {
		d.Data = 2
	}
	switch r.Intn(20) {
	case 0, 1:
		d.Type = 0
	case 2, 3:
		d.Type = 1
	case 4, 5:
		d.Type = 4
	case 6, 7, 8, 9:
		d.Type = 3
	case 10:
		d.Type = uint16(r.Intn(65536))
	}
	if r.Chance(1, 8) {
		d.Machine = []uint16{3, 62, 40, 183, 0}[r.Intn(5)]
	}
	odd := func(n int) bool { return r.Chance(1, n) }

	off := uint64(0x100)
	if r.Bool() {
		off = 0x200 + uint64(r.Intn(64))*4
	}
	addr := uint64(0x10000) + uint64(r.Intn(256))*16
	if d.Class == 2 && odd(10) {
		addr = 0x7fffff0000 + uint64(r.Intn(1024))*4
	}
	if d.Class == 2 && odd(30) {
		// code at the very top of the address space: sections that end at
		// or wrap around 2^64
		addr = ^uint64(0) - uint64(4*r.Intn(24)) - 3
	}
	type region struct{ off, addr, size uint64 }
	var code []region
	nCode := r.Weighted([]int{1, 6, 3, 1})
	atTop := addr > 1<<63
	for i := 0; i < nCode; i++ {
		n := r.Range(1, 24)
		if odd(6) {
			n = r.Range(25, 200)
		}
		if atTop && i == 0 && r.Bool() {
			// a section ending exactly at the end of the address space
			n = r.Range(1, 12)
			addr = -uint64(4 * n)
		}
		var bs []byte
		if odd(6) {
			bs = r.Bytes(4 * n) // not RISC-V code
		} else {
			prog := rvref.RandomProgram(r, addr, n, rvref.ProgOpts{Regs: r.Range(2, 6), JumpPct: r.Intn(15), MemPct: r.Intn(30), CSRPct: r.Intn(4), SysPct: r.Intn(4),
				BadJumpPct: r.Intn(3) / 2 * r.Range(5, 60)})
			for _, pi := range prog {
				bs = append(bs, byte(pi.Word), byte(pi.Word>>8), byte(pi.Word>>16), byte(pi.Word>>24))
			}
		}
		if odd(8) {
			// a section that is not a whole number of instruction words: one
			// to three bytes of zeros, ones or anything behind the last word
			tail := r.Bytes(r.Range(1, 3))
			switch r.Intn(3) {
			case 0:
				for k := range tail {
					tail[k] = 0
				}
			case 1:
				for k := range tail {
					tail[k] = 0xff
				}
			}
			bs = append(bs, tail...)
		}
		flags := uint64(elfref.SHFAlloc | elfref.SHFExec)
		s := elfref.Sec{Name: ".text", Type: elfref.SHTProgbits, Flags: flags, Addr: addr, Off: off, Size: uint64(len(bs))}
		if i > 0 {
			s.Name = ".text." + string(rune('a'+i))
		}
		d.Blobs = append(d.Blobs, elfref.Blob{Off: off, Hex: hex.EncodeToString(bs)})
		d.Secs = append(d.Secs, s)
		code = append(code, region{off, addr, uint64(len(bs))})
		off += uint64(len(bs))
		addr += uint64(len(bs))
		if pad := uint64(len(bs) % 4); pad != 0 {
			off += 4 - pad
			addr += 4 - pad
		}
		if !odd(3) { // otherwise the next section abuts exactly
			g := uint64(r.Range(1, 16)) * 4
			off += g
			addr += g
		}
	}
	// data, bss and assorted other sections
	dataOff, dataAddr := off, align(addr, 16)
	dataSize := uint64(r.Intn(64))
	if dataSize > 0 {
		d.Blobs = append(d.Blobs, elfref.Blob{Off: dataOff, Hex: hex.EncodeToString(r.Bytes(int(dataSize)))})
		d.Secs = append(d.Secs, elfref.Sec{Name: ".data", Type: elfref.SHTProgbits, Flags: elfref.SHFAlloc | elfref.SHFWrite, Addr: dataAddr, Off: dataOff, Size: dataSize})
	}
	off += dataSize
	bss := uint64(0)
	if r.Bool() {
		bss = uint64(r.Intn(256))
		d.Secs = append(d.Secs, elfref.Sec{Name: ".bss", Type: elfref.SHTNobits, Flags: elfref.SHFAlloc | elfref.SHFWrite, Addr: dataAddr + dataSize, Off: off, Size: bss})
	}
	if odd(3) {
		n := uint64(r.Intn(32))
		d.Blobs = append(d.Blobs, elfref.Blob{Off: off, Hex: hex.EncodeToString(r.Bytes(int(n)))})
		d.Secs = append(d.Secs, elfref.Sec{Name: ".comment", Type: elfref.SHTProgbits, Off: off, Size: n})
		off += n
	}
	if odd(5) || (nCode == 0 && odd(2)) { // empty executable section (possibly the only executable one)
		d.Secs = append(d.Secs, elfref.Sec{Name: ".empty", Type: elfref.SHTProgbits, Flags: elfref.SHFAlloc | elfref.SHFExec, Addr: addr + 0x1000, Off: off, Size: 0})
	}
	if odd(6) { // executable PROGBITS at address zero (must not become code)
		n := uint64(4 * r.Range(1, 4))
		d.Blobs = append(d.Blobs, elfref.Blob{Off: off, Hex: hex.EncodeToString(r.Bytes(int(n)))})
		zf := uint64(elfref.SHFExec)
		if r.Bool() {
			zf |= elfref.SHFAlloc // what decides is the address, not the flag
		}
		d.Secs = append(d.Secs, elfref.Sec{Name: ".zero", Type: elfref.SHTProgbits, Flags: zf, Addr: 0, Off: off, Size: n})
		off += n
	}
	if odd(8) { // executable PROGBITS with an address but without the ALLOC flag (is code)
		n := uint64(4 * r.Range(1, 4))
		d.Blobs = append(d.Blobs, elfref.Blob{Off: off, Hex: hex.EncodeToString(r.Bytes(int(n)))})
		d.Secs = append(d.Secs, elfref.Sec{Name: ".noalloc", Type: elfref.SHTProgbits, Flags: elfref.SHFExec, Addr: addr + 0x4000, Off: off, Size: n})
		off += n
	}
	if odd(6) { // executable NOBITS (must not become code)
		d.Secs = append(d.Secs, elfref.Sec{Name: ".xbss", Type: elfref.SHTNobits, Flags: elfref.SHFAlloc | elfref.SHFExec, Addr: addr + 0x2000, Off: off, Size: 16})
	}
	if odd(8) && len(code) > 0 { // overlapping code section (must be rejected)
		c := code[r.Intn(len(code))]
		n := uint64(4 * r.Range(1, 4))
		d.Secs = append(d.Secs, elfref.Sec{Name: ".ovl", Type: elfref.SHTProgbits, Flags: elfref.SHFAlloc | elfref.SHFExec,
			Addr: c.addr + uint64(r.Intn(int(c.size))), Off: c.off, Size: n})
	}
	if odd(10) { // section reaching outside the file
		d.Secs = append(d.Secs, elfref.Sec{Name: ".far", Type: elfref.SHTProgbits, Flags: elfref.SHFAlloc | elfref.SHFExec, Addr: addr + 0x3000, Off: off + 0x10000, Size: 64})
	}
	off = align(off, 8)
	d.StrOff = off
	off += 128
	// program headers
	if len(code) > 0 && !odd(12) {
		first, last := code[0], code[len(code)-1]
		end := last.off + last.size
		seg := elfref.Prog{Type: elfref.PTLoad, Flags: 5, Off: first.off, Vaddr: first.addr, Filesz: end - first.off, Memsz: end - first.off}
		switch r.Intn(12) {
		case 0: // data in a second, abutting segment
			d.Progs = append(d.Progs, seg)
			d.Progs = append(d.Progs, elfref.Prog{Type: elfref.PTLoad, Flags: 6, Off: end, Vaddr: seg.Vaddr + seg.Memsz, Filesz: dataSize, Memsz: dataSize + bss})
		case 1: // overlapping segments (must be rejected)
			d.Progs = append(d.Progs, seg)
			d.Progs = append(d.Progs, elfref.Prog{Type: elfref.PTLoad, Flags: 6, Off: first.off, Vaddr: seg.Vaddr + seg.Memsz/2, Filesz: 8, Memsz: 16})
		case 2: // nested
			d.Progs = append(d.Progs, elfref.Prog{Type: elfref.PTLoad, Flags: 6, Off: first.off, Vaddr: seg.Vaddr + 4, Filesz: 4, Memsz: 4})
			d.Progs = append(d.Progs, seg)
		case 3: // in-memory size smaller than file size (must be rejected)
			seg.Memsz = seg.Filesz / 2
			d.Progs = append(d.Progs, seg)
		case 4: // empty segment + a non-LOAD one
			d.Progs = append(d.Progs, elfref.Prog{Type: 4, Off: first.off, Vaddr: 0, Filesz: 8, Memsz: 8})
			d.Progs = append(d.Progs, seg)
			d.Progs = append(d.Progs, elfref.Prog{Type: elfref.PTLoad, Flags: 4, Off: end, Vaddr: seg.Vaddr + 0x10000, Filesz: 0, Memsz: 0})
		case 5: // big zero-filled tail
			seg.Memsz += uint64(r.Intn(1 << 16))
			d.Progs = append(d.Progs, seg)
		case 6: // segment claims more file bytes than the file has
			seg.Filesz += 0x8000
			seg.Memsz = seg.Filesz
			d.Progs = append(d.Progs, seg)
		case 7: // absurd file size AND memory size (consistent with each other)
			// (above the loader's 1 GiB bound: sizes below it are really
			// allocated, which takes the real binary minutes and is no
			// subject of any property)
			seg.Filesz = uint64(1) << uint(r.Range(31, 62))
			seg.Memsz = seg.Filesz + uint64(r.Intn(4096))
			d.Progs = append(d.Progs, seg)
		default:
			seg.Filesz += dataSize
			seg.Memsz = seg.Filesz + bss
			d.Progs = append(d.Progs, seg)
		}
		// oddities compose: empty, bss-only and non-LOAD headers may come on
		// top of whatever the layout above is, at addresses before, inside,
		// between and behind the other segments
		span := seg.Memsz + 64
		if span > 1<<20 {
			span = 1 << 20
		}
		where := func() uint64 { return seg.Vaddr + uint64(r.Intn(int(span))) - uint64(r.Intn(32)) }
		if odd(5) { // empty loadable segment
			d.Progs = append(d.Progs, elfref.Prog{Type: elfref.PTLoad, Flags: 4, Off: first.off, Vaddr: where(), Filesz: 0, Memsz: 0})
		}
		if odd(6) { // bss-only loadable segment (no file bytes, only zeros)
			d.Progs = append(d.Progs, elfref.Prog{Type: elfref.PTLoad, Flags: 6, Off: end, Vaddr: seg.Vaddr + 0x20000 + uint64(r.Intn(64)), Filesz: 0, Memsz: uint64(r.Range(1, 64))})
		}
		if odd(12) { // bss-only segment overlapping the others (must be rejected)
			d.Progs = append(d.Progs, elfref.Prog{Type: elfref.PTLoad, Flags: 6, Off: end, Vaddr: where(), Filesz: 0, Memsz: uint64(r.Range(1, 32))})
		}
		if odd(8) {
			d.Progs = append(d.Progs, elfref.Prog{Type: uint32(r.Range(2, 7)), Off: first.off, Vaddr: where(), Filesz: 8, Memsz: 8})
		}
		if odd(6) { // a loadable segment at virtual address 0 (with some other physical address)
			d.Progs = append(d.Progs, elfref.Prog{Type: elfref.PTLoad, Flags: 4, Off: first.off, Vaddr: 0, Filesz: uint64(r.Range(1, 8)), Memsz: uint64(r.Range(8, 16)), PaddrDelta: uint64(r.Intn(2)) * 0x80000000})
		}
		if odd(3) { // physical addresses that differ from the virtual ones
			for i := range d.Progs {
				if r.Bool() {
					d.Progs[i].PaddrDelta = []uint64{0x80000000, 0x1000, ^uint64(0) - 0xfff, 4}[r.Intn(4)]
				}
			}
		}
		if len(d.Progs) > 1 && odd(3) { // header order is not address order
			i, j := r.Intn(len(d.Progs)), r.Intn(len(d.Progs))
			d.Progs[i], d.Progs[j] = d.Progs[j], d.Progs[i]
		}
	}
	if len(code) == 0 && dataSize > 0 && !odd(4) {
		// no code at all, but something loadable
		d.Progs = append(d.Progs, elfref.Prog{Type: elfref.PTLoad, Flags: 6, Off: dataOff, Vaddr: dataAddr, Filesz: dataSize, Memsz: dataSize + bss})
	}
	if odd(12) {
		d.NoNull = true // the section table starts with a real section
	}
	if r.Bool() {
		d.Phoff = 64
		if d.Class == 1 {
			d.Phoff = 52
		}
		if d.Phoff+uint64(len(d.Progs))*56 > 0x100 {
			d.Phoff = off
			off += uint64(len(d.Progs)) * 56
		}
	} else {
		d.Phoff = off
		off += uint64(len(d.Progs)) * 56
	}
	d.Shoff = align(off, 8)
	off = d.Shoff + uint64(len(d.Secs)+2)*64
	d.Size = int(off) + r.Intn(16)
	// entry point
	if len(code) > 0 && !odd(10) {
		c := code[r.Intn(len(code))]
		d.Entry = c.addr + 4*uint64(r.Intn(int(c.size/4)))
	} else {
		d.Entry = uint64(r.Intn(1 << 20))
	}
	return d
}

// addCompressedSection appends an executable PROGBITS section that carries
// the SHF_COMPRESSED flag: a compression header (zlib, announced size) and a
// zlib stream of a few instruction words - well-formed, with a wrong
// announced size, or with garbage instead of the stream. Only start-up
// totality (C26) is judged on such images: what the code image of a
// compressed section is supposed to be is debug/elf's business, the reference
// reader of C20 does not model it.
func addCompressedSection(r *core.Rand, d *elfref.Desc) {
	const shfCompressed = 0x800
	n := 4 * r.Range(1, 8)
	raw := r.Bytes(n)
	if r.Chance(2, 3) {
		raw = nil
		for _, pi := range rvref.RandomProgram(r, 0x50000, n/4, rvref.ProgOpts{Regs: 3}) {
			raw = append(raw, byte(pi.Word), byte(pi.Word>>8), byte(pi.Word>>16), byte(pi.Word>>24))
		}
	}
	var z bytes.Buffer
	zw := zlib.NewWriter(&z)
	zw.Write(raw)
	zw.Close()
	stream := z.Bytes()
	announced := uint64(len(raw))
	switch r.Intn(6) {
	case 0:
		announced += uint64(r.Range(1, 64)) // more than the stream holds
	case 1:
		announced = uint64(1) << uint(r.Range(20, 40)) // absurd
	case 2:
		stream = r.Bytes(len(stream)) // no zlib stream at all
	}
	bo := binary.ByteOrder(binary.LittleEndian)
	if d.Data == 2 {
		bo = binary.BigEndian
	}
	var hdr []byte
	if d.Class == 2 {
		hdr = make([]byte, 24)
		bo.PutUint32(hdr[0:], 1) // ELFCOMPRESS_ZLIB
		bo.PutUint64(hdr[8:], announced)
		bo.PutUint64(hdr[16:], 4)
	} else {
		hdr = make([]byte, 12)
		bo.PutUint32(hdr[0:], 1)
		bo.PutUint32(hdr[4:], uint32(announced))
		bo.PutUint32(hdr[8:], 4)
	}
	body := append(hdr, stream...)
	// behind everything the image has so far
	off := uint64(d.Size)
	d.Blobs = append(d.Blobs, elfref.Blob{Off: off, Hex: hex.EncodeToString(body)})
	flags := uint64(elfref.SHFExec | shfCompressed)
	if r.Bool() {
		flags |= elfref.SHFAlloc
	}
	d.Secs = append(d.Secs, elfref.Sec{Name: ".ztext", Type: elfref.SHTProgbits, Flags: flags, Addr: 0x50000, Off: off, Size: uint64(len(body))})
	// the section header table moves behind the new bytes (one more entry)
	d.Shoff = align(off+uint64(len(body)), 8)
	d.Size = int(d.Shoff) + (len(d.Secs)+2)*64 + r.Intn(16)
}

func (e *Engine) Generate(r *core.Rand, prop string, tier string) core.Trace {
	t := &Trace{}
	faulty := r.Chance(2, 3) // fault-free and faulty configurations are separate runs
	if prop == "C26" {
		t.Child = r.Chance(1, 12)
		t.Tty = r.Chance(3, 4)
		switch r.Intn(24) {
		case 0:
			t.Path = "missing"
		case 1:
			t.Path = "directory"
		case 2:
			t.Path = "empty"
		case 3:
			t.Path = "not_elf"
		}
		if t.Child {
			switch r.Intn(16) {
			case 0:
				t.Args = "none"
			case 1:
				t.Args = "two"
			case 2:
				t.Args = "empty_arg"
			}
		}
		if t.Path != "" {
			return t
		}
	}
	t.Desc = genDesc(r)
	t.Twice = prop == "C20" && r.Chance(1, 3)
	if prop == "C26" && r.Chance(1, 10) {
		addCompressedSection(r, t.Desc)
	}
	img := elfref.Build(t.Desc)
	size := uint64(len(img))
	if faulty {
		n := r.Weighted([]int{0, 5, 3, 1})
		for i := 0; i < n; i++ {
			switch r.Weighted([]int{3, 2, 2, 2, 4, 2}) {
			case 0:
				t.Faults = append(t.Faults, Fault{K: "truncate_byte", A: uint64(r.Intn(int(size) + 1))})
			case 1:
				t.Faults = append(t.Faults, Fault{K: "truncate_sector", A: uint64(r.Intn(int(size)/512+1)) * 512})
			case 2:
				t.Faults = append(t.Faults, Fault{K: "torn_write", A: uint64(r.Intn(int(size) + 1)), B: uint64(r.Intn(2))})
			case 3:
				t.Faults = append(t.Faults, Fault{K: "lost_sector", A: uint64(r.Intn(int(size)/512 + 1)), B: uint64(r.Intn(2))})
			case 4:
				hdr := 64 + 56*len(t.Desc.Progs)
				bit := uint64(r.Intn(hdr * 8))
				if r.Bool() { // section / program header tables
					base, n := t.Desc.Shoff, uint64(len(t.Desc.Secs)+2)*64
					if r.Bool() && len(t.Desc.Progs) > 0 {
						base, n = t.Desc.Phoff, uint64(len(t.Desc.Progs))*56
					}
					bit = base*8 + uint64(r.Intn(int(n*8)))
				}
				t.Faults = append(t.Faults, Fault{K: "bitflip_header", A: bit})
			default:
				t.Faults = append(t.Faults, Fault{K: "bitflip_body", A: uint64(r.Intn(int(size) * 8))})
			}
		}
		if prop == "C20" && r.Chance(1, 2) {
			switch r.Intn(3) {
			case 0:
				t.Read = &ReadFault{K: "read_eio_at_kth", N: uint64(r.Intn(24))}
			case 1:
				t.Read = &ReadFault{K: "read_eio_from_offset", N: uint64(r.Intn(int(size) + 1))}
			default:
				t.Read = &ReadFault{K: "short_read", N: uint64(r.Intn(24))}
			}
		}
	}
	// address probes: block starts, interiors, last bytes, gaps, outside
	for _, s := range t.Desc.Secs {
		if s.Size > 0 && r.Chance(2, 3) {
			t.Probes = append(t.Probes, s.Addr, s.Addr+s.Size-1, s.Addr+s.Size, s.Addr+uint64(r.Intn(int(s.Size))))
			if s.Addr > 0 {
				t.Probes = append(t.Probes, s.Addr-1)
			}
		}
	}
	t.Probes = append(t.Probes, 0, r.Uint64())
	// further flag bits on executable sections (drawn late, so that the rest of
	// the run is what it was before): code that is also writable (code placed
	// in RAM), mergeable, carries strings, link info or a group bit is code all
	// the same - what decides is executable, PROGBITS, non-empty, address
	if r.Chance(1, 3) {
		for i := range t.Desc.Secs {
			if t.Desc.Secs[i].Flags&elfref.SHFExec != 0 && r.Chance(1, 2) {
				t.Desc.Secs[i].Flags |= []uint64{elfref.SHFWrite, 0x10, 0x20, 0x40, 0x80, 0x200, elfref.SHFWrite | 0x10}[r.Intn(7)]
			}
		}
	}
	// drawn last, so that every other choice of the run is what it was before
	// this tier existed: one C20 run in sixteen goes through the real binary
	every := 16
	if tier == "thorough" {
		every = 200 // a child process costs as much as a hundred in-process runs
	}
	if prop == "C20" && t.Read == nil && r.Chance(1, every) {
		t.Child, t.Tty = true, true
	}
	return t
}
