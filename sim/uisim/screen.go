package uisim

import (
	"fmt"
	"mltwist/internal/deps"
	"mltwist/internal/state/memory"
	"mltwist/internal/exprtransform"
	"mltwist/pkg/expr"
	"mltwist/pkg/model"
	"regexp"
	"strconv"
	"strings"
)

// ---- listing rows ----

// ListRow is one parsed row of the disassembly listing.
type ListRow struct {
	Cursor bool
	No     int
	Mark   string
	Text   string
}

var listRe = regexp.MustCompile(`^(.) *(\d+)  \| (.*?) \| (.*)$`)
var listBlankRe = regexp.MustCompile(`^(.) *(\d+)  \| (.*?) \| ?$`)

func parseListRow(line string) (ListRow, bool) {
	if m := listRe.FindStringSubmatch(line); m != nil {
		n, _ := strconv.Atoi(m[2])
		return ListRow{Cursor: m[1] == ">", No: n, Mark: strings.TrimSpace(m[3]), Text: m[4]}, true
	}
	if m := listBlankRe.FindStringSubmatch(line); m != nil {
		n, _ := strconv.Atoi(m[2])
		return ListRow{Cursor: m[1] == ">", No: n, Mark: strings.TrimSpace(m[3])}, true
	}
	return ListRow{}, false
}

// parseListing extracts the consecutive listing rows of a piece of output.
func parseListing(out string) []ListRow {
	var rows []ListRow
	for _, l := range strings.Split(out, "\n") {
		if r, ok := parseListRow(l); ok {
			rows = append(rows, r)
		}
	}
	return rows
}

// lastFrame returns the output after the last clear-screen sequence, and
// whether there was one.
func lastFrame(out string) (string, bool) {
	i := strings.LastIndex(out, clearSeq)
	if i < 0 {
		return out, false
	}
	return out[i+len(clearSeq):], true
}

// frames splits output into rendered frames.
func frames(out string) []string {
	parts := strings.Split(out, clearSeq)
	if len(parts) <= 1 {
		return nil
	}
	return parts[1:]
}

// countLines: number of newline characters, plus one if the output ends in a
// partial line.
func countLines(s string) int {
	n := strings.Count(s, "\n")
	if len(s) > 0 && !strings.HasSuffix(s, "\n") {
		n++
	}
	return n
}

// ModelRow is one row of a fresh rendering of the current code.
type ModelRow struct {
	Kind  string // header instr blank
	Block int    // position number (1-based) for headers
	Addr  uint64 // block start for headers
	Text  string // instruction text
	Bytes string // instruction bytes, upper-case hex separated by blanks
	Entry bool   // instruction at the entry point address (current order)
}

// freshListing renders the current code from deps.Code's public API: one
// header per block in current block order (position number, start address),
// its instructions in current order (text and bytes), blocks separated by
// single blank lines.
func freshListing(c *deps.Code) []ModelRow {
	var rows []ModelRow
	for i, b := range c.Blocks() {
		if i > 0 {
			rows = append(rows, ModelRow{Kind: "blank"})
		}
		// Blocks never move in the address space and instruction moves only
		// permute a block's instructions, so a block starts where the
		// lowest-addressed of its instructions originally was (derived
		// here rather than asked from the block).
		start := uint64(b.Begin())
		for k, in := range b.Instructions() {
			if a := uint64(in.OrigAddr()); k == 0 || a < start {
				start = a
			}
		}
		rows = append(rows, ModelRow{Kind: "header", Block: i + 1, Addr: start})
		for _, in := range b.Instructions() {
			var hx []string
			for _, x := range in.Bytes() {
				hx = append(hx, fmt.Sprintf("%02X", x))
			}
			rows = append(rows, ModelRow{Kind: "instr", Text: in.String(), Bytes: strings.Join(hx, " "),
				Entry: in.Begin() == c.Entrypoint()})
		}
	}
	return rows
}

var headerRe = regexp.MustCompile(`^Block (\d+): 0x([0-9a-fA-F]+)$`)

// rowMatches compares one displayed row text with a model row (marks and
// column padding are not part of the comparison).
func rowMatches(text string, m ModelRow) (bool, string) {
	switch m.Kind {
	case "blank":
		if strings.TrimSpace(text) != "" {
			return false, fmt.Sprintf("expected a blank line, shown %q", text)
		}
	case "header":
		h := headerRe.FindStringSubmatch(strings.TrimSpace(text))
		if h == nil {
			return false, fmt.Sprintf("expected the header of block %d at %#x, shown %q", m.Block, m.Addr, text)
		}
		n, _ := strconv.Atoi(h[1])
		a, _ := strconv.ParseUint(h[2], 16, 64)
		if n != m.Block || a != m.Addr {
			return false, fmt.Sprintf("expected header 'Block %d: %#x', shown %q", m.Block, m.Addr, text)
		}
	case "instr":
		parts := strings.SplitN(text, " | ", 2)
		if len(parts) != 2 {
			return false, fmt.Sprintf("expected instruction %q, shown %q", m.Text, text)
		}
		if strings.TrimSpace(parts[0]) != strings.TrimSpace(m.Text) || !strings.EqualFold(strings.Join(strings.Fields(parts[1]), " "), m.Bytes) {
			return false, fmt.Sprintf("expected instruction %q with bytes %s, shown %q", m.Text, m.Bytes, text)
		}
	}
	return true, ""
}

// ---- memory view rows ----

// MemRow is one parsed row of the memory view.
type MemRow struct {
	Cursor   bool
	No       int
	Ellipsis bool
	Begin    uint64
	End      uint64
	Cells    []string // 16 cells: two hex digits or ".."
}

var memRe = regexp.MustCompile(`^(.) *(\d+)  \| 0x([0-9a-fA-F]{16}) - 0x([0-9a-fA-F]{16}) \| (.*)$`)
var memEllRe = regexp.MustCompile(`^(.) *(\d+)  \| \.\.\.$`)

func parseMemRows(out string) []MemRow {
	var rows []MemRow
	for _, l := range strings.Split(out, "\n") {
		if m := memRe.FindStringSubmatch(l); m != nil {
			n, _ := strconv.Atoi(m[2])
			b, _ := strconv.ParseUint(m[3], 16, 64)
			e, _ := strconv.ParseUint(m[4], 16, 64)
			rows = append(rows, MemRow{Cursor: m[1] == ">", No: n, Begin: b, End: e, Cells: strings.Fields(m[5])})
		} else if m := memEllRe.FindStringSubmatch(l); m != nil {
			n, _ := strconv.Atoi(m[2])
			rows = append(rows, MemRow{Cursor: m[1] == ">", No: n, Ellipsis: true})
		}
	}
	return rows
}

// ExpRow is an expected data row of the memory view.
type ExpRow struct {
	Begin uint64
	Cells [16]string
}

// expectedMemRows: one row per 16-byte aligned window that overlaps stored
// memory, in address order, each stored byte's current value, ".." for absent
// bytes.
func expectedMemRows(mem memory.Memory) []ExpRow {
	if mem == nil {
		return nil
	}
	var rows []ExpRow
	idx := map[uint64]int{}
	for _, iv := range mem.Blocks().Intervals() {
		for a := uint64(iv.Begin()); a < uint64(iv.End()); a++ {
			w := a &^ 15
			i, ok := idx[w]
			if !ok {
				var r ExpRow
				r.Begin = w
				for k := range r.Cells {
					r.Cells[k] = ".."
				}
				rows = append(rows, r)
				i = len(rows) - 1
				idx[w] = i
			}
			ex, ok := mem.Load(model.Addr(a), 1)
			if !ok {
				continue
			}
			if c, isC := exprtransform.ConstFold(ex).(expr.Const); isC {
				rows[i].Cells[a-w] = fmt.Sprintf("%02X", c.Bytes()[0])
			} else {
				rows[i].Cells[a-w] = "??"
			}
			if a == ^uint64(0) {
				break
			}
		}
	}
	// address order
	for i := 1; i < len(rows); i++ {
		for j := i; j > 0 && rows[j-1].Begin > rows[j].Begin; j-- {
			rows[j-1], rows[j] = rows[j], rows[j-1]
		}
	}
	return rows
}

// rowsFromModel: expected rows from an independent byte model.
func rowsFromModel(m map[uint64]byte) []ExpRow {
	idx := map[uint64]int{}
	var rows []ExpRow
	for a, b := range m {
		w := a &^ 15
		i, ok := idx[w]
		if !ok {
			var r ExpRow
			r.Begin = w
			for k := range r.Cells {
				r.Cells[k] = ".."
			}
			rows = append(rows, r)
			i = len(rows) - 1
			idx[w] = i
		}
		rows[i].Cells[a-w] = fmt.Sprintf("%02X", b)
	}
	for i := 1; i < len(rows); i++ {
		for j := i; j > 0 && rows[j-1].Begin > rows[j].Begin; j-- {
			rows[j-1], rows[j] = rows[j], rows[j-1]
		}
	}
	return rows
}

// ---- register view ----

var regRe = regexp.MustCompile(`(\S+): 0x([0-9a-fA-F]+)`)

// parseRegs extracts "key: 0xHEX" pairs of a frame (big-endian hex).
func parseRegs(frame string) map[string]string {
	out := map[string]string{}
	for _, l := range strings.Split(frame, "\n") {
		if _, ok := parseListRow(l); ok {
			continue
		}
		if strings.Contains(l, "Enter command") || strings.Contains(l, "Block ") {
			continue
		}
		for _, m := range regRe.FindAllStringSubmatch(l, -1) {
			out[m[1]] = strings.ToLower(m[2])
		}
	}
	return out
}
