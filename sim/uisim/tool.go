package uisim

import (
	"fmt"
	"os"
	"path/filepath"
	"regexp"
	"strings"

	"mltwist/internal/consoleui/verifsim/core"
	"mltwist/internal/consoleui/verifsim/elfref"
	"mltwist/internal/consoleui/verifsim/imggen"
	"mltwist/internal/consoleui/verifsim/rvref"
)

// The tool tier: what only cmd/mltwist/main.go decides - which memory an
// emulation of the program starts from - judged on the real binary. The
// in-process engines replicate that wiring and cannot see a change to it.
//
// A scenario is one run of the real binary on a pty with K consecutive
// emulations of a three-instruction program
//
//	lw  x7,  0(x6)     load through a pointer the provider supplies (lb/lh/lw/ld per scenario)
//	sw  x5,  0(x6)     overwrite it with a value the provider supplies
//	lw  x28, 0(x6)     read it back
//
// where the pointer either targets memory outside the image (the word must be
// asked for in *every* emulation: a new emulation has never known it - C04 -
// and x7 shows the answer of this emulation - C03) or data of the image (never
// asked; x7 shows the image's bytes in every emulation, not what an earlier
// emulation stored there - C03's "read-only program image under a writable
// sparse layer" as the initial state of each emulation).

// ToolScenario is the seeded part of one tool-tier run.
type ToolScenario struct {
	K       int      `json:"k"`       // emulations in the run
	InImage []bool   `json:"inimage"` // per emulation: pointer into the image's data
	Ptr     []uint64 `json:"ptr"`
	MemAns  []uint64 `json:"memans"`      // answer to the memory prompt (pointer outside the image), cut to the width
	Val     []uint64 `json:"val"`         // value of x5
	Data    []byte   `json:"data"`        // the image's data segment at toolDataAddr
	W       int      `json:"w,omitempty"` // access width in bytes: 1, 2, 4 (also when 0) or 8
}

func (s *ToolScenario) w() int {
	switch s.W {
	case 1, 2, 8:
		return s.W
	}
	return 4
}

// sextW is the value a signed load of the scenario's width leaves in a register.
func (s *ToolScenario) sextW(v uint64) uint64 {
	switch s.w() {
	case 1:
		return uint64(int64(int8(v)))
	case 2:
		return uint64(int64(int16(v)))
	case 4:
		return uint64(int64(int32(v)))
	}
	return v
}

const (
	toolCodeAddr = 0x10000
	toolDataAddr = 0x20000
)

// GenToolScenario draws a scenario.
func GenToolScenario(r *core.Rand) *ToolScenario {
	s := &ToolScenario{K: 2 + r.Intn(3)}
	s.Data = make([]byte, 32)
	for i := range s.Data {
		s.Data[i] = byte(r.Intn(256))
	}
	// few distinct pointers, so that emulations of one run meet each other's
	// addresses
	outside := []uint64{0x30000 + uint64(r.Intn(64))*4, 0x7fff0000, 0x40000000 + uint64(r.Intn(1<<16))*4}
	inside := []uint64{toolDataAddr + uint64(r.Intn(7))*4, toolDataAddr + uint64(r.Intn(7))*4}
	for i := 0; i < s.K; i++ {
		in := r.Chance(1, 3)
		s.InImage = append(s.InImage, in)
		if in {
			s.Ptr = append(s.Ptr, inside[r.Intn(len(inside))])
		} else {
			s.Ptr = append(s.Ptr, outside[r.Intn(2)])
		}
		s.MemAns = append(s.MemAns, r.Uint64())
		s.Val = append(s.Val, r.Uint64())
	}
	// drawn last: scenarios drawn before widths existed keep their pointers
	s.W = []int{4, 1, 2, 4, 8}[r.Intn(5)]
	mask := ^uint64(0) >> (64 - 8*uint(s.w()))
	for i := range s.MemAns {
		s.MemAns[i] &= mask
	}
	return s
}

// Without returns the scenario without its emulations from..to-1.
func (s *ToolScenario) Without(from, to int) *ToolScenario {
	c := &ToolScenario{Data: s.Data}
	for i := 0; i < s.K; i++ {
		if i >= from && i < to {
			continue
		}
		c.K++
		c.InImage = append(c.InImage, s.InImage[i])
		c.Ptr = append(c.Ptr, s.Ptr[i])
		c.MemAns = append(c.MemAns, s.MemAns[i])
		c.Val = append(c.Val, s.Val[i])
	}
	return c
}

func (s *ToolScenario) desc() *elfref.Desc {
	var prog []rvref.ProgIns
	add := func(name string, rd, rs1, rs2 int, imm int64) {
		prog = append(prog, rvref.ProgIns{Addr: toolCodeAddr + uint64(len(prog))*4, Word: rvref.Enc(name, rd, rs1, rs2, imm), Name: name, Text: rvref.Text(name, rd, rs1, rs2, imm)})
	}
	ld, st := map[int]string{1: "lb", 2: "lh", 4: "lw", 8: "ld"}[s.w()], map[int]string{1: "sb", 2: "sh", 4: "sw", 8: "sd"}[s.w()]
	add(ld, 7, 6, 0, 0)
	add(st, 0, 6, 5, 0)
	add(ld, 28, 6, 0, 0)
	add("addi", 0, 0, 0, 0)
	add("addi", 0, 0, 0, 0)
	return imggen.Exec(prog, toolCodeAddr, toolDataAddr, s.Data, 0)
}

// input is the whole input of the run as a correct tool consumes it.
func (s *ToolScenario) input() string {
	var b strings.Builder
	for i := 0; i < s.K; i++ {
		b.WriteString("entry\nemulate\n")
		b.WriteString("step\n")
		fmt.Fprintf(&b, "0x%x\n", s.Ptr[i]) // x6
		if !s.InImage[i] {
			fmt.Fprintf(&b, "0x%x\n", s.MemAns[i])
		}
		b.WriteString("step\n")
		fmt.Fprintf(&b, "0x%x\n", s.Val[i]) // x5
		b.WriteString("step\n")
		b.WriteString("quit\n\n") // "leaving mode emulate" waits for ENTER
	}
	b.WriteString("quit\n\n")
	return b.String()
}

var toolPromptRe = regexp.MustCompile(`Please enter value of (register (\S+)|memory (\S+) at address 0x([0-9a-fA-F]+) \((\d+)\)) \[(\d+) bytes\]: `)

// observed is what the screens of the real binary say.
type toolObserved struct {
	prompts []string            // "reg x6" / "mem 0x30000 4" in order of appearance
	regs    []map[string]string // per emulation: the last register table seen before the emulation was left
}

func observeTool(out string) toolObserved {
	var o toolObserved
	for _, m := range toolPromptRe.FindAllStringSubmatch(out, -1) {
		if m[2] != "" {
			o.prompts = append(o.prompts, "reg "+m[2])
		} else {
			o.prompts = append(o.prompts, fmt.Sprintf("mem 0x%s %s", strings.ToLower(strings.TrimLeft(m[4], "0")), m[6]))
		}
	}
	var cur map[string]string
	for _, f := range frames(out) {
		regs := parseRegs(f)
		if _, ok := regs["x6"]; ok {
			cur = regs
			continue
		}
		if cur != nil && len(regs) == 0 && strings.Contains(f, "Block ") {
			// back in the disassembler: the emulation is over
			o.regs = append(o.regs, cur)
			cur = nil
		}
	}
	if cur != nil {
		o.regs = append(o.regs, cur)
	}
	return o
}

func hexEq(shown string, v uint64) bool {
	shown = strings.TrimLeft(strings.ToLower(shown), "0")
	return shown == strings.TrimLeft(fmt.Sprintf("%x", v), "0")
}

// ToolViolation is one verdict of a tool-tier run.
type ToolViolation struct{ Prop, Sig, Detail string }

// RunToolScenario runs the real binary on the scenario and judges its screens
// under C04 (what was asked) and C03 (what the registers show), each on its
// own. harness != "" means the run could not be judged (exit 2 material).
func RunToolScenario(s *ToolScenario) (vs []ToolViolation, harness string) {
	bin := filepath.Join(core.VerifDir(), "build", "mltwist")
	if _, err := os.Stat(bin); err != nil {
		return nil, "real binary not built: " + bin
	}
	if s.K < 0 || len(s.InImage) != s.K || len(s.Ptr) != s.K || len(s.MemAns) != s.K || len(s.Val) != s.K || len(s.Data) != 32 {
		return nil, "malformed tool scenario"
	}
	for i := 0; i < s.K; i++ {
		if s.InImage[i] && (s.Ptr[i] < toolDataAddr || s.Ptr[i] > toolDataAddr+24) {
			return nil, "malformed tool scenario (pointer outside the data segment)"
		}
	}
	out, status, err := realRun(bin, elfref.Build(s.desc()), []byte(s.input()))
	if err != nil && len(out) == 0 {
		return nil, err.Error()
	}
	o := observeTool(string(out))
	var want []string
	var wantEmu []int
	for i := 0; i < s.K; i++ {
		want = append(want, "reg x6")
		wantEmu = append(wantEmu, i)
		if !s.InImage[i] {
			want = append(want, fmt.Sprintf("mem 0x%x %d", s.Ptr[i], s.w()))
			wantEmu = append(wantEmu, i)
		}
		want = append(want, "reg x5")
		wantEmu = append(wantEmu, i)
	}
	// the provider is asked for exactly what each emulation has never known
	aligned := true
	last := s.K - 1 // the last emulation whose screens are judged
	for i := 0; i < len(want) || i < len(o.prompts); i++ {
		g, w := "(none)", "(none)"
		if i < len(o.prompts) {
			g = o.prompts[i]
		}
		if i < len(want) {
			w = want[i]
		}
		if g != w {
			cls := "asked-for-known-state"
			switch {
			case strings.HasPrefix(w, "reg") && g != w:
				cls = "unknown-register-not-asked-in-a-later-emulation"
			case i >= len(o.prompts) || (strings.HasPrefix(w, "mem") && !strings.HasPrefix(g, "mem")):
				cls = "unknown-memory-not-asked-in-a-later-emulation"
			}
			vs = append(vs, ToolViolation{"C04", "tool/" + cls, fmt.Sprintf("prompt %d of the run: the real binary asked %s, a tool whose every emulation starts from the program image asks %s (all prompts: %v; expected %v)", i, g, w, o.prompts, want)})
			aligned = false
			if i < len(want) {
				last = wantEmu[i] // from there on the input is out of step with the prompts
			}
			break
		}
	}
	if aligned {
		// nothing was asked that should not be, so the input was consumed as written
		if err != nil {
			return nil, err.Error()
		}
		if status != 0 {
			return nil, fmt.Sprintf("child status %d on a well-formed scenario, stdout tail %q", status, tailStr(string(out), 300))
		}
		if len(o.regs) != s.K {
			return nil, fmt.Sprintf("%d emulations recognised on the screens, %d run; stdout tail %q", len(o.regs), s.K, tailStr(string(out), 300))
		}
	}
	for i := 0; i <= last && i < len(o.regs); i++ {
		mask := ^uint64(0) >> (64 - 8*uint(s.w()))
		first := s.sextW(s.MemAns[i] & mask)
		if s.InImage[i] {
			off := s.Ptr[i] - toolDataAddr
			var v uint64
			for k := s.w() - 1; k >= 0; k-- {
				v = v<<8 | uint64(s.Data[int(off)+k])
			}
			first = s.sextW(v)
		}
		checks := []struct {
			reg  string
			want uint64
			cls  string
		}{{"x6", s.Ptr[i], "pointer"}, {"x7", first, "first-load"}}
		if aligned || i < last {
			checks = append(checks, struct {
				reg  string
				want uint64
				cls  string
			}{"x28", s.sextW(s.Val[i] & mask), "load-after-store"}, struct {
				reg  string
				want uint64
				cls  string
			}{"x5", s.Val[i], "stored-value"})
		}
		bad := false
		for _, c := range checks {
			got, ok := o.regs[i][c.reg]
			if !ok && !aligned && i == last {
				break // the input went out of step with the prompts: only what is shown is judged
			}
			if !ok || !hexEq(got, c.want) {
				if c.cls == "pointer" && !aligned && i == last {
					break
				}
				where := "outside-image"
				if s.InImage[i] {
					where = "image-data"
				}
				vs = append(vs, ToolViolation{"C03", "tool/" + c.cls + "/" + where, fmt.Sprintf("emulation %d of the run (pointer 0x%x): %s shows %q, the reference machine started from the program image holds 0x%x", i+1, s.Ptr[i], c.reg, got, c.want)})
				bad = true
				break
			}
		}
		if bad {
			break
		}
	}
	return vs, ""
}

// ToolProbe prints what one scenario looks like (debugging aid).
func ToolProbe(seed uint64) int {
	r := core.NewRand(core.RunSeed(seed, "tool-probe", "C03", 0))
	s := GenToolScenario(r)
	bin := filepath.Join(core.VerifDir(), "build", "mltwist")
	out, status, err := realRun(bin, elfref.Build(s.desc()), []byte(s.input()))
	fmt.Printf("scenario %+v\ninput %q\nstatus %d err %v\n", *s, s.input(), status, err)
	if os.Getenv("VERIF_TOOL_RAW") != "" {
		fmt.Printf("%s\n", out)
	}
	o := observeTool(string(out))
	fmt.Printf("prompts %v\nregs %v\n", o.prompts, o.regs)
	vs, h := RunToolScenario(s)
	fmt.Println("verdict:", vs, h)
	return 0
}
