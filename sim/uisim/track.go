package uisim

import (
	"math/big"
	"strings"
)

// tracker follows the dialogue from the outside: which mode the tool is in,
// which command is awaiting its outcome, where the cursor is. It is shared by
// the simulated user (generator) and the oracles (executor); it interprets
// every delivered line in the context in which the tool consumed it, learnt
// from the prompt text the tool printed before blocking.
type tracker struct {
	mode      string // dis | emu | mem
	memKey    string // key of the memory shown in mem mode
	pending   *pendingCmd
	accum     string // output since the pending command was delivered
	coarse    bool   // glued lines: per-line observation impossible until the next command prompt
	lastFrame string // last complete frame seen at a command prompt
	frameRows int    // terminal height in force when lastFrame was rendered
	cursor    int    // cursor line parsed from lastFrame (-1 unknown)
	done      []*pendingCmd
	ended     bool
}

type pendingCmd struct {
	line      string
	mode      string
	cursor    int
	rowsAtCmd int
	out       string // everything printed until the next command prompt
	values    []valueAnswer
	frame     string // last frame before the command
	coarse    bool
	rows      int // terminal height when the outcome frame was rendered
}

type valueAnswer struct {
	reg   string
	mem   string
	addr  uint64
	width int
	typed string
}

func newTracker() *tracker { return &tracker{mode: "dis", cursor: -1} }

func firstToken(line string) (string, []string) {
	var parts []string
	for _, p := range strings.Split(line, " ") {
		if p != "" {
			parts = append(parts, p)
		}
	}
	if len(parts) == 0 {
		return "", nil
	}
	return parts[0], parts[1:]
}

func oneOf(s string, set ...string) bool {
	for _, x := range set {
		if s == x {
			return true
		}
	}
	return false
}

func hasErrorLine(out string) bool {
	for _, l := range strings.Split(out, "\n") {
		if strings.HasPrefix(l, "error: ") {
			return true
		}
	}
	return false
}

func frameMode(frame string) string {
	if strings.Contains(frame, "NO MEMORY TO SHOW") || len(parseMemRows(frame)) > 0 {
		return "mem"
	}
	if strings.Contains(frame, "#r:w:ip: 0x") {
		return "emu"
	}
	if len(parseListing(frame)) > 0 {
		return "dis"
	}
	return ""
}

func cursorOf(frame, mode string) int {
	if mode == "mem" {
		for _, r := range parseMemRows(frame) {
			if r.Cursor {
				return r.No
			}
		}
		return -1
	}
	for _, r := range parseListing(frame) {
		if r.Cursor {
			return r.No
		}
	}
	return -1
}

// observe is called at every Read (before the next input is chosen).
// It returns the command whose outcome is now complete, if any.
func (t *tracker) observe(o *Obs) *pendingCmd {
	t.accum += o.Out
	if o.Kind != pCommand {
		return nil
	}
	var fin *pendingCmd
	if t.pending != nil {
		fin = t.pending
		fin.out = t.accum
		fin.coarse = t.coarse
		fin.rows = o.Rows
		t.pending = nil
		// command-based mode transitions
		tok, args := firstToken(fin.line)
		failed := hasErrorLine(fin.out)
		switch {
		case fin.mode == "dis" && oneOf(tok, "emulate", "emul", "e") && !failed:
			t.mode = "emu"
		case fin.mode == "emu" && oneOf(tok, "memory", "mem", "m") && len(args) >= 1 && !failed:
			t.mode, t.memKey = "mem", args[0]
		case oneOf(tok, "quit", "q") && strings.Contains(fin.out, "leaving mode"):
			if fin.mode == "mem" {
				t.mode = "emu"
			} else if fin.mode == "emu" {
				t.mode = "dis"
			}
		}
		t.done = append(t.done, fin)
	}
	if fr, ok := lastFrame(t.accum); ok {
		t.lastFrame = fr
		t.frameRows = o.Rows
		if m := frameMode(fr); m != "" {
			t.mode = m
		}
		t.cursor = cursorOf(fr, t.mode)
	}
	t.accum = ""
	t.coarse = false
	return fin
}

// delivered is told about every input event with the context it was consumed in.
func (t *tracker) delivered(o *Obs, ev Ev) {
	switch ev.K {
	case "eof", "readerr", "overlong":
		t.ended = true
		return
	}
	switch o.Kind {
	case pCommand:
		t.pending = &pendingCmd{line: strings.TrimSuffix(ev.S, "\r"), mode: t.mode, cursor: t.cursor, frame: t.lastFrame, rowsAtCmd: o.Rows}
		if ev.K == "glue" {
			t.coarse = true
		}
	case pValue:
		if t.pending != nil {
			t.pending.values = append(t.pending.values, valueAnswer{o.Reg, o.Mem, o.Addr, o.Width, ev.S})
		}
		if ev.K == "glue" {
			t.coarse = true
		}
	default:
		if ev.K == "glue" {
			t.coarse = true
		}
	}
}

// ---- independent parsers for the checked numeric forms (C30) ----

func digitsOK(s string, base int) bool {
	if s == "" {
		return false
	}
	for _, c := range s {
		var v int
		switch {
		case c >= '0' && c <= '9':
			v = int(c - '0')
		case c >= 'a' && c <= 'f':
			v = int(c-'a') + 10
		case c >= 'A' && c <= 'F':
			v = int(c-'A') + 10
		default:
			return false
		}
		if v >= base {
			return false
		}
	}
	return true
}

// parseChecked parses decimal, 0x/0X hex, 0b/0B binary and 0-prefixed octal
// with an optional minus sign (when allowed). ok=false: not one of the forms
// the property lists.
func parseChecked(s string, allowMinus bool) (*big.Int, bool) {
	neg := false
	if allowMinus && strings.HasPrefix(s, "-") {
		neg, s = true, s[1:]
	}
	base, digits := 10, s
	switch {
	case strings.HasPrefix(s, "0x") || strings.HasPrefix(s, "0X"):
		base, digits = 16, s[2:]
	case strings.HasPrefix(s, "0b") || strings.HasPrefix(s, "0B"):
		base, digits = 2, s[2:]
	case len(s) > 1 && s[0] == '0':
		base, digits = 8, s[1:]
	}
	if !digitsOK(digits, base) {
		return nil, false
	}
	v, ok := new(big.Int).SetString(digits, base)
	if !ok {
		return nil, false
	}
	if neg {
		v.Neg(v)
	}
	return v, true
}

// clearlyMalformed: spellings the property names as rejected (empty,
// underscores, malformed numbers): nothing a liberal integer parser accepts.
func clearlyMalformed(s string) bool {
	if s == "" || strings.Contains(s, "_") {
		return true
	}
	if _, ok := new(big.Int).SetString(s, 0); ok {
		return false
	}
	return true
}
