package uisim

import (
	"fmt"
	"math/big"
	"os"
	"strings"
	"sync/atomic"
	"time"

	"mltwist/internal/consoleui"
	"mltwist/internal/consoleui/emulate"
	"mltwist/internal/consoleui/internal/linereader"
	"mltwist/internal/consoleui/verifsim/core"
	"mltwist/internal/deps"
	"mltwist/internal/parser"
	"mltwist/internal/state"
	"mltwist/pkg/expr"
	"mltwist/pkg/model"
)

// The prompt lab: the emulator's value prompt at widths no RISC-V instruction
// asks for. A synthetic straight-line code whose i-th instruction copies
// register s<i> to d<i> at Lab[i] bytes is put into the real emulation mode
// (emulate.New) over an empty state; every `step` makes the real state
// provider prompt for s<i> at that width, the trace's lines are the answers.
// A well-formed answer must be accepted and leave the typed integer modulo
// 2^(8w) in the state; an empty, underscored or malformed one must be
// rejected (the prompt comes again). Spellings that are neither clearly
// well-formed nor clearly malformed are not judged.

type labDetails struct{ text string }

func (d labDetails) Name() string   { return "copy" }
func (d labDetails) String() string { return d.text }

type labReader struct {
	x       *exec
	widths  []int
	cur     int // instruction being stepped
	answers []string
	next    int
	pending string // answer delivered and not yet known to be accepted or rejected
	hasPend bool
	trouble string
}

func (r *labReader) Read(p []byte) (int, error) {
	atomic.StoreInt64(&lastBeat, time.Now().UnixNano())
	out := takeOutput()
	k, reg, _, _, w := classify(out)
	// (the value prompt never gives up on a failing input stream, so every
	// read is answered; after trouble or a verdict with a plain zero)
	if r.trouble == "" && !r.x.stop && r.hasPend && k != pValue && strings.HasPrefix(out, "error: ") {
		// the answer was refused: the error message is acknowledged with
		// ENTER, then the prompt comes again
		r.x.judgeLabAnswer(r.pending, r.widths[r.cur], false, nil)
		r.hasPend = false
		r.x.ctx.Probe("lab_answer_refused")
		return copy(p, "\n"), nil
	}
	if r.trouble == "" && (k != pValue || reg != fmt.Sprintf("s%d", r.cur) || w != r.widths[r.cur]) {
		r.trouble = fmt.Sprintf("unexpected prompt while stepping instruction %d: %q", r.cur, tailStr(out, 200))
	}
	if r.trouble != "" || r.x.stop {
		r.hasPend = false
		return copy(p, "0\n"), nil
	}
	if r.hasPend {
		// the prompt again without an error message in between
		r.trouble = "the prompt was repeated without an error message"
		r.hasPend = false
		return copy(p, "0\n"), nil
	}
	ans := "0"
	if r.next < len(r.answers) {
		ans = r.answers[r.next]
		r.x.ev = r.next
		r.next++
	}
	r.pending, r.hasPend = ans, true
	r.x.ctx.Event(r.x.ev, fmt.Sprintf("lab answer %q at %d bytes", ans, w))
	line := ans + "\n"
	if len(line) > len(p) {
		// (answers are short; a line that does not fit one read is not used here)
		r.trouble = "answer longer than the read buffer"
		r.hasPend = false
		return copy(p, "0\n"), nil
	}
	return copy(p, line), nil
}

func (x *exec) judgeLabAnswer(ans string, w int, accepted bool, stat *state.State) {
	val, wellFormed := parseChecked(ans, true)
	x.ctx.MarkNonTrivial()
	switch {
	case wellFormed && !accepted:
		x.fail("C30", "value-parse", "value/lab/well-formed-rejected", "typed %q at a %d-byte prompt: rejected although it is a number in an accepted base", ans, w)
	case !wellFormed && clearlyMalformed(ans) && accepted:
		x.fail("C30", "value-reject", "value/malformed-accepted", "typed %q at a %d-byte value prompt (empty / underscore / malformed) but it was not rejected with an error", ans, w)
	case wellFormed && accepted:
		mod := new(big.Int).Lsh(big.NewInt(1), uint(8*w))
		want := new(big.Int).Mod(val, mod)
		wantBytes := make([]byte, w)
		be := want.Bytes()
		for i := 0; i < len(be) && i < w; i++ {
			wantBytes[i] = be[len(be)-1-i]
		}
		cls := "positive"
		if val.Sign() < 0 {
			cls = "negative"
		} else if val.BitLen() > 8*w {
			cls = "wider-than-prompt"
		}
		var ex expr.Expr
		var have bool
		reg := fmt.Sprintf("s%d", x.labCur)
		core.Guard(func() { ex, have = stat.Regs.Load(expr.Key(reg), expr.Width(w)) })
		c, isC := ex.(expr.Const)
		if !have || !isC {
			x.fail("C30", "value-parse", "value/lab/not-in-state", "typed %q at the %d-byte prompt for %s: the state does not hold a constant for it afterwards", ans, w, reg)
			return
		}
		x.ctx.Probe(fmt.Sprintf("lab_value_judged:%s:%s", cls, widthClass(w)))
		if string(c.Bytes()) != string(wantBytes) {
			x.fail("C30", "value-parse", "value/"+cls, "typed %q at a %d-byte prompt for %s: state holds %x, expected %x (the typed integer modulo 2^%d, little-endian)",
				ans, w, reg, c.Bytes(), wantBytes, 8*w)
		}
	default:
		x.ctx.Probe("lab_answer_unjudged")
	}
}

func widthClass(w int) string {
	switch {
	case w <= 8:
		return "w<=8"
	case w <= 16:
		return "w<=16"
	}
	return "w>16"
}

func (x *exec) promptLab(t *Trace) {
	var ins []parser.Instruction
	for i, w := range t.Lab {
		if w < 1 || w > 255 || i >= 24 {
			return
		}
		a := model.Addr(0x1000 + 4*i)
		ins = append(ins, parser.Instruction{Addr: a, Bytes: []byte{byte(i), 0, 0, 0},
			Effects: []expr.Effect{expr.NewRegStore(expr.NewRegLoad(expr.Key(fmt.Sprintf("s%d", i)), expr.Width(w)), expr.Key(fmt.Sprintf("d%d", i)), expr.Width(w))},
			Details: labDetails{fmt.Sprintf("copy d%d, s%d (%d bytes)", i, i, w)}})
	}
	ins = append(ins, parser.Instruction{Addr: model.Addr(0x1000 + 4*len(t.Lab)), Bytes: []byte{0xff, 0, 0, 0}, Details: labDetails{"nop"}})
	var answers []string
	for _, ev := range t.Evs {
		if ev.K == "line" {
			answers = append(answers, ev.S)
		}
	}
	stat := state.New()
	var md consoleui.Mode
	var err error
	if fn, msg, p := core.Guard(func() {
		var code *deps.Code
		code, err = deps.NewCode(0x1000, ins)
		if err == nil {
			md, err = emulate.New(code, 0x1000, stat)
		}
	}); p {
		panic("HARNESS: prompt lab could not be set up: " + fn + ": " + msg)
	}
	if err != nil || md == nil {
		panic(fmt.Sprintf("HARNESS: prompt lab could not be set up: %v", err))
	}
	var step *consoleui.Command
	cmds := md.Commands()
	for i := range cmds {
		for _, k := range cmds[i].Keys {
			if k == "step" {
				step = &cmds[i]
			}
		}
	}
	if step == nil {
		panic("HARNESS: the emulation mode has no step command")
	}
	rd := &labReader{x: x, widths: t.Lab, answers: answers}
	linereader.VerifSetInput(rd)
	atomic.StoreInt64(&lastBeat, time.Now().UnixNano())
	atomic.StoreInt32(&inSession, 1)
	defer atomic.StoreInt32(&inSession, 0)
	old := os.Stdout
	takeOutput()
	os.Stdout = capture
	defer func() { os.Stdout = old }()
	setRows(40)
	for i := range t.Lab {
		rd.cur, x.labCur = i, i
		var aerr error
		fn, msg, panicked := core.Guard(func() { aerr = step.Action(nil) })
		takeOutput()
		if panicked {
			if strings.Contains(firstFrames(core.LastPanicStack, 1), "/verifsim/") {
				panic("HARNESS: panic inside the prompt lab: " + msg + "\n" + core.LastPanicStack)
			}
			x.fail("C30", "no-crash", "value/lab-panic/"+fn, "stepping with the answer %q at a %d-byte prompt crashed: %s", rd.pending, t.Lab[i], msg)
			return
		}
		if rd.trouble != "" {
			x.ctx.Probe("lab_protocol_trouble")
			x.ctx.Note("lab trouble: %s", rd.trouble)
			return
		}
		if x.stop {
			return
		}
		if aerr != nil {
			x.ctx.Probe("lab_step_error")
			return
		}
		if rd.hasPend {
			x.judgeLabAnswer(rd.pending, t.Lab[i], true, stat)
			rd.hasPend = false
			if x.stop {
				return
			}
		}
	}
}

// regLab: the real emulation view over a register file that no RV64 program
// produces; every render event grants the declared minimum plus N lines (or
// an absurd height): no crash, never more lines than granted, a fixed height
// exactly. A render error is not judged (the view may refuse what it cannot
// draw).
func (x *exec) regLab(t *Trace) {
	var ins []parser.Instruction
	for i := 0; i < 3; i++ {
		ins = append(ins, parser.Instruction{Addr: model.Addr(0x1000 + 4*i), Bytes: []byte{byte(i), 0, 0, 0}, Details: labDetails{"nop"}})
	}
	stat := state.New()
	for _, rs := range t.RegLab {
		if rs.W < 1 || rs.W > 255 || rs.Name == "" || len(rs.Name) > 200 {
			continue
		}
		bs := unhexLab(rs.Hex)
		stat.Regs.Store(expr.Key(rs.Name), expr.NewConst(bs, expr.Width(rs.W)), expr.Width(rs.W))
	}
	var md consoleui.Mode
	var err error
	if fn, msg, p := core.Guard(func() {
		var code *deps.Code
		code, err = deps.NewCode(0x1000, ins)
		if err == nil {
			md, err = emulate.New(code, 0x1000, stat)
		}
	}); p {
		x.fail("C24", "render-no-crash", "reglab-panic/"+fn, "building the emulation view over the register file panicked: %s", msg)
		return
	}
	if err != nil || md == nil {
		x.ctx.Probe("reglab_mode_refused")
		return
	}
	x.ctx.MarkNonTrivial()
	atomic.StoreInt64(&lastBeat, time.Now().UnixNano())
	old := os.Stdout
	takeOutput()
	os.Stdout = capture
	defer func() { os.Stdout = old }()
	for i, ev := range t.Evs {
		if ev.K != "render" || x.stop {
			continue
		}
		x.ev = i
		x.ctx.Event(i, fmt.Sprintf("reglab render +%d", ev.N))
		x.directRender("emulator-composite", md.View(), ev.N)
		x.ctx.Probe("reglab_render")
	}
}

func unhexLab(s string) []byte {
	out := make([]byte, len(s)/2)
	for i := range out {
		fmt.Sscanf(s[2*i:2*i+2], "%02x", &out[i])
	}
	return out
}
