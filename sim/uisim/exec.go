package uisim

import (
	"fmt"
	"math/big"
	"mltwist/internal/consoleui"
	"mltwist/internal/consoleui/internal/memview"
	"mltwist/internal/consoleui/internal/view"
	"mltwist/internal/consoleui/verifsim/core"
	"mltwist/internal/state/memory"
	"mltwist/pkg/expr"
	"mltwist/pkg/model"
	"os"
	"regexp"
	"strconv"
	"strings"
)

type exec struct {
	ctx  *core.Ctx
	t    *Trace
	s    *session
	tr   *tracker
	idx  int // next trace event
	ev   int // index of the event being judged (for reports)
	tail int // extra inputs after the trace ran out

	freshAtCmd []ModelRow // fresh rendering when the pending command was delivered
	lastValue  *valueAnswer
	lastBad    bool // the last value answer was clearly malformed
	wantAck    bool
	sawMove    bool
	stop       bool
	labCur     int // prompt lab: instruction being stepped
}

var cmdSets = map[string]map[string]int{ // command -> number of required arguments
	"dis": {"down": 1, "d": 1, "up": 1, "u": 1, "move": 2, "mv": 2, "m": 2, "bounds": 1, "b": 1, "find": 1, "f": 1, "/": 1,
		"goto": 1, "g": 1, "entrypoint": 0, "entry": 0, "alllines": 0, "emulate": 0, "emul": 0, "e": 0, "quit": 0, "q": 0, "help": 0, "h": 0},
	"emu": {"forward": 0, "fwd": 0, "f": 0, "step": 0, "s": 0, "memories": 0, "mems": 0, "ms": 0, "memory": 1, "mem": 1, "m": 1,
		"regmod": 1, "rmod": 1, "quit": 0, "q": 0, "help": 0, "h": 0},
	"mem": {"down": 1, "d": 1, "up": 1, "u": 1, "goto": 1, "g": 1, "address": 1, "addr": 1, "a": 1, "quit": 0, "q": 0, "help": 0, "h": 0},
}

var numericCmds = map[string]bool{"down": true, "d": true, "up": true, "u": true, "move": true, "mv": true, "bounds": true, "b": true, "goto": true, "g": true}
var intRe = regexp.MustCompile(`^[+-]?[0-9]+$`)

func (x *exec) fail(prop, oracle, sig string, format string, args ...interface{}) {
	if x.ctx.Fail(prop, oracle, sig, x.ev, format, args...) {
		x.stop = true
	}
}

func listingLen(rows []ModelRow) int { return len(rows) + 1 } // plus the final blank line

// checkListingRows: every displayed listing row must equal the same row of a
// fresh rendering of the current code (marks excluded).
func (x *exec) checkListingRows(where string, rows []ListRow, fresh []ModelRow) {
	for _, r := range rows {
		if r.No == len(fresh) { // the final blank line
			if strings.TrimSpace(r.Text) != "" {
				x.fail("C23", "listing", "listing/"+where+"/trailing-row", "line %d after the last block shows %q", r.No, r.Text)
				return
			}
			continue
		}
		if r.No < 0 || r.No > len(fresh) {
			x.fail("C23", "listing", "listing/"+where+"/row-out-of-range", "a row numbered %d is shown but the listing has %d lines", r.No, listingLen(fresh))
			return
		}
		if ok, why := rowMatches(r.Text, fresh[r.No]); !ok {
			kind := fresh[r.No].Kind
			x.fail("C23", "listing", "listing/"+where+"/"+kind+"-mismatch", "line %d: %s (fresh rendering of the current code: %+v)", r.No, why, fresh[r.No])
			return
		}
	}
}

func (x *exec) memoryShown() memory.Memory {
	if x.s.stat == nil {
		return nil
	}
	return x.s.stat.Mems[expr.Key(x.tr.memKey)]
}

// checkMemRows: displayed data rows must be a contiguous run of the expected
// rows with equal cells; exactly one ellipsis row between non-consecutive
// data rows, none between consecutive ones.
func (x *exec) checkMemRows(where string, rows []MemRow, exp []ExpRow, complete bool) {
	var data []MemRow
	prevEll := 0
	var prev *MemRow
	for i := range rows {
		r := rows[i]
		if r.Ellipsis {
			prevEll++
			continue
		}
		if prev != nil {
			consecutive := prev.Begin+16 == r.Begin
			if consecutive && prevEll != 0 {
				x.fail("C32", "memview", "memview/"+where+"/ellipsis-between-consecutive", "an ellipsis row separates consecutive rows %#x and %#x", prev.Begin, r.Begin)
				return
			}
			if !consecutive && prevEll != 1 {
				x.fail("C32", "memview", "memview/"+where+"/ellipsis-count", "%d ellipsis rows between non-consecutive rows %#x and %#x (exactly one expected)", prevEll, prev.Begin, r.Begin)
				return
			}
		}
		prevEll = 0
		data = append(data, r)
		prev = &rows[i]
	}
	if len(data) == 0 {
		if complete && len(exp) > 0 {
			x.fail("C32", "memview", "memview/"+where+"/rows-missing", "no data row shown, %d expected", len(exp))
		}
		return
	}
	start := -1
	for i, e := range exp {
		if e.Begin == data[0].Begin {
			start = i
		}
	}
	if start < 0 {
		x.fail("C32", "memview", "memview/"+where+"/unexpected-row", "a row for window %#x is shown but no stored byte lies in it", data[0].Begin)
		return
	}
	for i, r := range data {
		if start+i >= len(exp) {
			x.fail("C32", "memview", "memview/"+where+"/unexpected-row", "a row for window %#x is shown beyond the last stored window", r.Begin)
			return
		}
		e := exp[start+i]
		if r.Begin != e.Begin {
			x.fail("C32", "memview", "memview/"+where+"/row-order", "row window %#x shown where %#x is expected (one row per 16-byte window overlapping stored memory, ascending)", r.Begin, e.Begin)
			return
		}
		if r.End != r.Begin+16 && !(r.Begin == ^uint64(15) && r.End == 0) {
			x.fail("C32", "memview", "memview/"+where+"/row-range", "row %#x reports end %#x", r.Begin, r.End)
			return
		}
		if len(r.Cells) != 16 {
			x.fail("C32", "memview", "memview/"+where+"/cell-count", "row %#x shows %d cells", r.Begin, len(r.Cells))
			return
		}
		for k := 0; k < 16; k++ {
			if !strings.EqualFold(r.Cells[k], e.Cells[k]) {
				cls := "value"
				if e.Cells[k] == ".." {
					cls = "absent-shown-as-stored"
				} else if r.Cells[k] == ".." {
					cls = "stored-shown-as-absent"
				}
				x.fail("C32", "memview", "memview/"+where+"/cell-"+cls, "byte %#x is shown as %s, memory holds %s", r.Begin+uint64(k), r.Cells[k], e.Cells[k])
				return
			}
		}
	}
	if complete && (start != 0 || len(data) != len(exp)) {
		var sb, eb []string
		for _, r := range data {
			sb = append(sb, fmt.Sprintf("%#x", r.Begin))
		}
		for _, e := range exp {
			eb = append(eb, fmt.Sprintf("%#x", e.Begin))
		}
		x.fail("C32", "memview", "memview/"+where+"/rows-missing", "the whole view shows %d data rows starting at expected row %d, %d rows expected; shown windows %v, windows overlapping stored memory %v", len(data), start, len(exp), sb, eb)
	}
}

// captureRender calls f with stdout captured separately from the session.
func captureRender(f func() error) (string, error, bool, string, string) {
	takeOutput()
	var err error
	fn, msg, panicked := core.Guard(func() { err = f() })
	out := takeOutput()
	return out, err, panicked, fn, msg
}

// directRender is the C24 direct driver: Print(n) for a granted height n >=
// MinLines on a view in its current state must not crash, must not write
// more than n lines, exactly n if the view declares a fixed height.
func (x *exec) directRender(name string, v view.View, extra int) {
	min, max := v.MinLines(), v.MaxLines()
	if min < 0 {
		min = 0
	}
	// every granted height of at least the declared minimum; a view that
	// declares a fixed height is granted exactly that
	n := min + extra
	if extra >= 1<<40 {
		n = extra // an absurdly generous grant, taken as the height itself
		x.ctx.Probe("direct_render_huge_height")
	}
	if min == max {
		n = min
	}
	out, err, panicked, fn, msg := captureRender(func() error { return v.Print(n) })
	x.ctx.Note("render %s n=%d -> %d lines err=%v panic=%v", name, n, countLines(out), err != nil, panicked)
	x.ctx.Probe("direct_render:" + name)
	if panicked {
		x.fail("C24", "render-no-crash", "render-panic/"+name+"/"+fn, "%s view Print(%d) (declared min %d, max %d) panicked: %s", name, n, min, max, msg)
		return
	}
	if err != nil {
		x.ctx.Probe("direct_render_error")
		return // a render error returned to the caller is neither a crash nor an over-write
	}
	lines := countLines(out)
	if lines > n {
		x.fail("C24", "render-fits", "render-overflow/"+name, "%s view Print(%d) wrote %d lines", name, n, lines)
		return
	}
	if min == max && lines != n {
		x.fail("C24", "render-fixed", "render-fixed/"+name, "%s view declares the fixed height %d but Print(%d) wrote %d lines", name, min, n, lines)
	}
}

// twoLines stands in for the command prompt the UI puts below a mode's view:
// an element of exactly two lines.
type twoLines struct{}

func (twoLines) MinLines() int { return 2 }
func (twoLines) MaxLines() int { return 2 }
func (twoLines) Print(n int) error {
	if n < 2 {
		return fmt.Errorf("two lines needed")
	}
	fmt.Print("\nEnter command: ")
	return nil
}

// noLines is an element of a composite that has nothing to show.
type noLines struct{}

func (noLines) MinLines() int     { return 0 }
func (noLines) MaxLines() int     { return 0 }
func (noLines) Print(n int) error { return nil }

func (x *exec) doRender(ev Ev) {
	switch ev.V {
	case "dis":
		if x.s.dis != nil {
			x.directRender("listing", x.s.dis.View(), ev.N)
		}
	case "emu":
		if x.s.emu != nil {
			x.directRender("emulator-composite", x.s.emu.View(), ev.N)
			if !x.stop {
				// the same view as the UI nests it: above a two-line element
				var nested view.View
				if _, _, p := core.Guard(func() { nested = view.NewComposite(x.s.emu.View(), twoLines{}) }); !p && nested != nil {
					x.directRender("emulator-composite-nested", nested, ev.N)
				}
				// ... and next to an element that has nothing to show
				var withEmpty view.View
				if _, _, p := core.Guard(func() { withEmpty = view.NewComposite(x.s.emu.View(), noLines{}, twoLines{}) }); !p && withEmpty != nil && !x.stop {
					x.directRender("emulator-composite-with-empty-element", withEmpty, ev.N)
				}
			}
			// The register table declares a fixed height (what the
			// composite's minimum adds to the listing's minimum and the
			// separator line): it must write exactly that many lines.
			if x.s.dis != nil && !x.stop {
				v := x.s.emu.View()
				declared := v.MinLines() - x.s.dis.View().MinLines() - 1
				grant := v.MinLines() + ev.N
				if ev.N >= 1<<40 {
					grant = ev.N
				}
				out, err, panicked, _, _ := captureRender(func() error { return v.Print(grant) })
				if !panicked && err == nil && declared >= 0 {
					got := 0
					for _, l := range strings.Split(out, "\n") {
						if _, isList := parseListRow(l); !isList && regRe.MatchString(l) {
							got++
						}
					}
					x.ctx.Probe("register_table_height_checked")
					if got != declared {
						x.fail("C24", "render-fixed", "render-fixed/register-table", "the register table declares %d lines but wrote %d (emulator view granted %d lines)", declared, got, grant)
					}
				}
			}
		}
	case "mem":
		mem := x.memoryShown()
		if x.tr.mode != "mem" && x.s.stat != nil {
			mem = x.s.stat.Mems["memory"]
		}
		var md consoleui.Mode
		if _, _, p := core.Guard(func() { md = memview.New(mem) }); p || md == nil {
			return
		}
		v := md.View()
		x.directRender("memory", v, ev.N)
		// the whole view from the top: every expected row, in order
		out, err, panicked, _, _ := captureRender(func() error { return v.Print(100000) })
		if !panicked && err == nil && mem != nil {
			x.checkMemRows("whole-view", parseMemRows(out), expectedMemRows(mem), true)
		}
		// ... and once more with the cursor moved down by the view's own
		// command: what it declares must also hold away from the top
		if x.stop {
			return
		}
		k := ev.N % 9
		if ev.N >= 1<<40 {
			k = 3
		}
		if k > 0 {
			cmds := md.Commands()
			for i := range cmds {
				for _, key := range cmds[i].Keys {
					if key == "down" && len(cmds[i].Args) == 1 {
						var aerr error
						if _, _, p := core.Guard(func() {
							var val interface{}
							if val, aerr = cmds[i].Args[0](strconv.Itoa(k)); aerr == nil {
								aerr = cmds[i].Action(nil, val)
							}
						}); !p && aerr == nil {
							x.ctx.Probe("direct_render_memory_cursor_moved")
							x.directRender("memory", md.View(), ev.N)
						}
					}
				}
			}
		}
	}
}

// memLab is the direct memory-view driver: a sparse memory is filled by a
// seeded history of small constant stores scattered over a few 16-byte
// windows (also the very first and the very last of the address space), a
// fresh memory view over it is rendered as a whole and compared row by row,
// and its own `address` command is executed on stored, absent and outside
// addresses.
func (x *exec) memLab(seed int) {
	r := core.NewRand(uint64(seed) ^ 0x6d656d6c6162)
	mem := memory.NewSparse()
	var base uint64
	switch r.Intn(5) {
	case 0:
		base = 0
	case 1:
		base = 0x1000 + uint64(r.Intn(64))
	case 2:
		base = ^uint64(0) - 63
	case 3:
		base = r.Uint64() &^ 0xf
	default:
		base = 0x7fff0
	}
	// The lab keeps its own byte model of what it stored (last write wins),
	// so the view is judged against the history, not against the memory's
	// own reads.
	bytesModel := map[uint64]byte{}
	var stored []uint64
	fill := func(n int) {
		for i := 0; i < n; i++ {
			w := r.Range(1, 3)
			if r.Chance(1, 5) {
				w = r.Range(4, 20)
			}
			if r.Chance(1, 12) {
				w = r.Range(33, 200) // one value wider than 32 bytes
			}
			a := base + uint64(r.Intn(64))
			if a+uint64(w) <= a {
				continue // would reach the end of the address space: not representable
			}
			bs := r.Bytes(w)
			mem.Store(model.Addr(a), expr.NewConst(bs, expr.Width(w)), expr.Width(w))
			for k := 0; k < w; k++ {
				stored = append(stored, a+uint64(k))
				bytesModel[a+uint64(k)] = bs[k]
			}
		}
	}
	fill(r.Range(1, 10))
	if len(stored) == 0 {
		return
	}
	if r.Chance(1, 2) {
		// a first view, then more stores that extend / bridge what the first
		// view saw, then the view that is judged
		var first consoleui.Mode
		core.Guard(func() {
			first = memview.New(mem)
			captureRender(func() error { return first.View().Print(12) })
		})
		fill(r.Range(1, 4))
		x.ctx.Probe("memlab_two_phases")
	}
	x.ctx.Probe("memlab")
	if base == ^uint64(0)-63 {
		x.ctx.Probe("memlab_top_of_address_space")
	}
	var md consoleui.Mode
	if fn, msg, p := core.Guard(func() { md = memview.New(mem) }); p {
		x.fail("C32", "memview", "memview/lab/new-panic/"+fn, "memview.New panicked: %s", msg)
		return
	}
	v := md.View()
	out, err, panicked, fn, msg := captureRender(func() error { return v.Print(100000) })
	if panicked {
		x.fail("C24", "render-no-crash", "render-panic/memory-lab/"+fn, "memory view Print panicked: %s", msg)
		return
	}
	exp := rowsFromModel(bytesModel)
	for _, e := range exp {
		runs, in := 0, false
		for _, c := range e.Cells {
			if c != ".." && !in {
				runs++
			}
			in = c != ".."
		}
		if runs >= 3 {
			x.ctx.Probe("memlab_row_with_3plus_blocks")
		}
	}
	if err == nil {
		x.checkMemRows("lab-whole-view", parseMemRows(out), exp, true)
	}
	if x.stop {
		return
	}
	var addrCmd *consoleui.Command
	cmds := md.Commands()
	for i := range cmds {
		for _, k := range cmds[i].Keys {
			if k == "address" {
				addrCmd = &cmds[i]
			}
		}
	}
	if addrCmd == nil || len(addrCmd.Args) != 1 {
		return
	}
	// arguments that are none of the listed forms must be answered with an
	// error by the command's own argument parser
	malformed := []string{"0o17", "0O7", "0x_ff", "0x1_0", "0_7", "0b1_0", "1_000", "_1", "1_", "+5", "-1", "0x", "0b", "0B", "0X", "x", "0x1g", "08", "0b12",
		"18446744073709551616", "0x10000000000000000", "1e3", "0x-1", "１", "5 ", "", "0b" + strings.Repeat("1", 65), "0" + strings.Repeat("7", 23)}
	for k := 0; k < 3 && !x.stop; k++ {
		arg := malformed[r.Intn(len(malformed))]
		if _, ok := parseChecked(arg, false); ok {
			if v, _ := parseChecked(arg, false); fits64(v) {
				continue
			}
		}
		var perr error
		fn, msg, panicked := core.Guard(func() { _, perr = addrCmd.Args[0](arg) })
		if panicked {
			x.fail("C30", "address-parse", "address/lab-panic/"+fn, "address argument %q panicked: %s", arg, msg)
			return
		}
		x.ctx.Probe("memlab_malformed_address")
		if perr == nil {
			x.fail("C30", "address-parse", "address/malformed-accepted", "address argument %q is none of decimal / 0x / 0b / 0-octal 64-bit forms but was not answered with an error", arg)
			return
		}
	}
	for k := 0; k < 4 && !x.stop; k++ {
		var a uint64
		switch r.Intn(9) {
		case 0, 1, 2, 3:
			a = stored[r.Intn(len(stored))]
		case 4, 5:
			a = base + uint64(r.Intn(64))
		case 6:
			a = ^uint64(0) // the last address there is
		default:
			a = base + 4096 + uint64(r.Intn(64))
		}
		arg := spellNumber(r, new(big.Int).SetUint64(a), false)
		var val interface{}
		var perr, aerr error
		fn, msg, panicked := core.Guard(func() {
			val, perr = addrCmd.Args[0](arg)
			if perr == nil {
				aerr = addrCmd.Action(nil, val)
			}
		})
		if panicked {
			x.fail("C30", "address-parse", "address/lab-panic/"+fn, "address %q panicked: %s", arg, msg)
			return
		}
		var row *ExpRow
		for i := range exp {
			if exp[i].Begin == a&^15 {
				row = &exp[i]
			}
		}
		isStored := row != nil && row.Cells[a&15] != ".."
		if perr != nil {
			if isStored {
				// neither selected nor reported as absent
				x.fail("C32", "address-select", "address-select/lab/stored-not-found", "address %#x (typed %q) is stored but the address command answered: %v", a, arg, perr)
			}
			x.fail("C30", "address-parse", "address/lab/rejected", "address argument %q (= %#x) was rejected: %v", arg, a, perr)
			return
		}
		x.ctx.Note("memlab address %#x stored=%v err=%v", a, isStored, aerr != nil)
		switch {
		case isStored && aerr != nil:
			x.fail("C32", "address-select", "address-select/lab/stored-not-found", "address %#x is stored but the address command failed: %v", a, aerr)
		case row == nil && aerr == nil:
			x.fail("C32", "address-select", "address-select/lab/absent-selected", "address %#x lies in no displayed window but the address command succeeded", a)
		case aerr == nil:
			fr, ferr, p2, _, _ := captureRender(func() error { return v.Print(9) })
			if p2 || ferr != nil {
				continue
			}
			for _, mr := range parseMemRows(fr) {
				if mr.Cursor && (mr.Ellipsis || mr.Begin != a&^15) {
					x.fail("C32", "address-select", "address-select/lab/wrong-row", "address %#x: cursor is on the row of window %#x", a, mr.Begin)
				}
			}
		}
	}
}

// judgeFrames: C24 in sessions + C23/C32 window checks on every frame.
func (x *exec) judgeFrames(o *Obs) {
	for _, fr := range frames(o.Out) {
		lines := countLines(fr)
		x.ctx.Note("frame rows=%d lines=%d mode=%s", o.Rows, lines, x.tr.mode)
		if strings.HasPrefix(fr, "screen height is not sufficient") {
			x.ctx.Probe("height_below_minimum")
			continue
		}
		cut := strings.Index(fr, "Enter command: ")
		if cut < 0 {
			continue // frame followed by an error return; nothing more to count
		}
		body := fr[:cut+len("Enter command: ")]
		if n := countLines(body); n > o.Rows {
			x.fail("C24", "frame-fits", "frame-overflow/"+x.tr.mode, "a frame of %d lines was written to a terminal of %d rows (mode %s)", n, o.Rows, x.tr.mode)
		}
	}
}

func (x *exec) judgeScreen(o *Obs) {
	if o.Kind != pCommand || x.tr.lastFrame == "" {
		return
	}
	fr := x.tr.lastFrame
	switch x.tr.mode {
	case "dis", "emu":
		x.checkListingRows("frame", parseListing(fr), freshListing(x.s.ld.Code))
	case "mem":
		if mem := x.memoryShown(); mem != nil {
			x.checkMemRows("frame", parseMemRows(fr), expectedMemRows(mem), false)
		} else if len(parseMemRows(fr)) > 0 {
			x.fail("C32", "memview", "memview/frame/rows-for-absent-memory", "rows are shown for a memory that does not exist")
		}
	}
}

func fits64(v *big.Int) bool { return v.Sign() >= 0 && v.BitLen() <= 64 }

// judge evaluates a command whose outcome is complete.
func (x *exec) judge(c *pendingCmd) {
	ctx := x.ctx
	tok, args := firstToken(c.line)
	failed := hasErrorLine(c.out)
	ctx.Note("cmd %q mode=%s failed=%v", c.line, c.mode, failed)
	ctx.State(fmt.Sprintf("%s|%s|%s|err=%v|rows=%s", c.mode, tok, argClass(args), failed, rowsClass(c.rows)))
	if c.coarse {
		ctx.Probe("coarse_observation")
		return
	}
	if tok == "" {
		return // empty / blank line: ignoring it or answering with an error are both fine
	}
	// C22: lines that cannot be commands must be answered with an error.
	need, known := cmdSets[c.mode][tok]
	mustErr := !known || len(args) < need
	if known && numericCmds[tok] {
		for i := 0; i < need && i < len(args); i++ {
			if !intRe.MatchString(args[i]) {
				mustErr = true
			}
		}
	}
	if mustErr && !failed {
		x.fail("C22", "answered", "unanswered/"+c.mode+"/"+map[bool]string{true: "known", false: "unknown"}[known],
			"line %q in mode %s is not a valid command but was not answered with an error; output %q", c.line, c.mode, tailStr(c.out, 300))
		return
	}
	if mustErr {
		ctx.Fault("out_of_protocol_line")
	}
	if !known || len(args) < need {
		return
	}
	fresh := freshListing(x.s.ld.Code)
	after := x.tr.cursor

	switch {
	case c.mode == "dis" && oneOf(tok, "move", "mv", "m"):
		x.sawMove = true
		if failed {
			ctx.Fault("move_rejected")
			if !sameRows(x.freshAtCmd, fresh) {
				x.fail("C23", "rejected-move", "rejected-move/listing-changed", "move %v was answered with an error but the code listing changed", args)
			}
		} else {
			ctx.Probe("move_accepted")
			if !sameRows(x.freshAtCmd, fresh) {
				ctx.Probe("move_changed_listing")
				ctx.MarkNonTrivial()
			}
		}
	case c.mode == "dis" && tok == "alllines":
		rows := parseListing(c.out)
		if i := strings.Index(c.out, clearSeq); i >= 0 {
			rows = parseListing(c.out[:i])
		}
		x.checkListingRows("alllines", rows, fresh)
		if !x.stop && len(rows) != listingLen(fresh) {
			x.fail("C23", "listing", "listing/alllines/length", "alllines printed %d lines, the current code renders to %d", len(rows), listingLen(fresh))
		}
		ctx.Probe("alllines_compared")
	case c.mode == "dis" && oneOf(tok, "down", "d", "up", "u", "goto", "g", "entrypoint", "entry", "find", "f", "/"):
		x.judgeNav(c, tok, args, failed, after, fresh)
	case c.mode == "mem" && oneOf(tok, "address", "addr", "a"):
		x.judgeAddress(c, args[0], failed, after)
	}
	if len(c.values) > 0 {
		x.judgeValues(c)
	}
}

func sameRows(a, b []ModelRow) bool {
	if len(a) != len(b) {
		return false
	}
	for i := range a {
		if a[i] != b[i] {
			return false
		}
	}
	return true
}

func argClass(args []string) string {
	if len(args) == 0 {
		return "noarg"
	}
	a := args[0]
	switch {
	case !intRe.MatchString(a):
		return "nonnumeric"
	case strings.HasPrefix(a, "-"):
		return "negative"
	case len(a) > 12:
		return "huge"
	case a == "0":
		return "zero"
	}
	return "num"
}

func rowsClass(r int) string {
	switch {
	case r < 8:
		return "tiny"
	case r < 14:
		return "small"
	case r > 90:
		return "huge"
	}
	return "normal"
}

func (x *exec) judgeNav(c *pendingCmd, tok string, args []string, failed bool, after int, fresh []ModelRow) {
	before := c.cursor
	if before < 0 || after < 0 {
		x.ctx.Probe("cursor_not_visible")
		return
	}
	x.ctx.MarkNonTrivial()
	if failed {
		if after != before {
			x.fail("C31", "nav-error-unchanged", "nav/"+tok+"/error-moved-cursor", "%q was answered with an error but the cursor moved from %d to %d", c.line, before, after)
		}
		x.ctx.Probe("nav_error:" + tok)
		return
	}
	total := listingLen(fresh)
	switch {
	case oneOf(tok, "down", "d", "up", "u", "goto", "g"):
		n, err := strconv.Atoi(args[0])
		if err != nil {
			return
		}
		want := n
		if oneOf(tok, "down", "d") {
			want = before + n
		} else if oneOf(tok, "up", "u") {
			want = before - n
		}
		cls := "interior"
		if want == 0 {
			cls = "first"
		} else if want == total-1 {
			cls = "last"
		} else if want < 0 || want >= total {
			cls = "outside"
		}
		x.ctx.Probe("nav_target:" + cls)
		if after != want {
			x.fail("C31", "nav-target", "nav/"+tok+"/wrong-line/"+cls, "%q from line %d: cursor is on line %d, expected %d (listing has %d lines)", c.line, before, after, want, total)
		}
	case oneOf(tok, "entrypoint", "entry"):
		ok := false
		for i, r := range fresh {
			if r.Kind == "instr" && r.Entry && i == after {
				ok = true
			}
		}
		// also accept the line of the instruction that was originally at
		// the entry point (the statement's "entry instruction" admits both)
		if !ok {
			if i := x.origEntryLine(); i == after {
				ok = true
			}
		}
		if !ok {
			x.fail("C31", "nav-target", "nav/entrypoint/wrong-line", "entrypoint put the cursor on line %d, which does not show the entry instruction (entry %#x)", after, x.s.ld.Code.Entrypoint())
		}
	default: // find
		if len(args) == 0 {
			return
		}
		// the pattern is the words of the line joined by single spaces
		pattern := strings.Join(args, " ")
		text := func(k int) string { return modelText(fresh, k) }
		if len(args) != 1 || strings.ContainsAny(pattern, "^$") {
			// Patterns with blanks or anchors see the exact layout of a line
			// (indentation, padding of the instruction column): judged only
			// when that layout can be measured on the screen and reproduces
			// every displayed row.
			exact, ok := x.exactValues(fresh)
			if !ok {
				x.ctx.Probe("find_unjudged_pattern")
				return
			}
			x.ctx.Probe("find_layout_sensitive_pattern_judged")
			text = func(k int) string {
				if k < 0 || k >= len(exact) {
					return ""
				}
				return exact[k]
			}
		}
		modelTextAt := text
		re, err := regexp.CompilePOSIX(pattern)
		if err != nil {
			return
		}
		args = []string{pattern}
		if strings.Contains(c.out, "No line matching") {
			if after != before {
				x.fail("C31", "nav-error-unchanged", "nav/find/nomatch-moved-cursor", "find reported no match but the cursor moved")
			}
			// is there really no match anywhere but the cursor line?
			for i := 1; i < total; i++ {
				k := (before + i) % total
				if re.MatchString(modelTextAt(k)) {
					x.fail("C31", "nav-target", "nav/find/missed-match", "find %q from line %d reported no match but line %d (%q) matches", args[0], before, k, modelTextAt(k))
					return
				}
			}
			x.ctx.Probe("find_no_match")
			return
		}
		want := -1
		for i := 1; i < total; i++ {
			k := (before + i) % total
			if re.MatchString(modelTextAt(k)) {
				want = k
				break
			}
		}
		x.ctx.Probe("find_judged")
		if want < before && want >= 0 {
			x.ctx.Probe("find_wrapped")
		}
		if after != want {
			x.fail("C31", "nav-target", "nav/find/wrong-line", "find %q from line %d: cursor is on line %d, the first matching line after the cursor (cyclically, cursor line excluded) is %d", args[0], before, after, want)
		}
	}
}

// exactValues reconstructs the exact text of every listing line from the
// fresh rendering: instruction lines are indented and their instruction
// column is padded; both amounts are measured on a displayed instruction row
// and the reconstruction must reproduce every row the last frame shows.
func (x *exec) exactValues(fresh []ModelRow) ([]string, bool) {
	rows := parseListing(x.tr.lastFrame)
	indent, width := -1, -1
	for _, r := range rows {
		if r.No < 0 || r.No >= len(fresh) || fresh[r.No].Kind != "instr" {
			continue
		}
		cut := strings.LastIndex(r.Text, " | ")
		if cut < 0 {
			continue
		}
		ind := len(r.Text) - len(strings.TrimLeft(r.Text, " "))
		if ind > cut {
			continue
		}
		indent, width = ind, cut-ind
		break
	}
	if indent < 0 {
		return nil, false
	}
	out := make([]string, len(fresh))
	for i, r := range fresh {
		switch r.Kind {
		case "header":
			out[i] = fmt.Sprintf("Block %d: 0x%x", r.Block, r.Addr)
		case "instr":
			out[i] = strings.Repeat(" ", indent) + fmt.Sprintf("%-*s", width, r.Text) + " | " + r.Bytes
		}
	}
	for _, r := range rows {
		if r.No < 0 || r.No >= len(out) || out[r.No] != r.Text {
			return nil, false
		}
	}
	return out, true
}

func modelText(fresh []ModelRow, i int) string {
	if i < 0 || i >= len(fresh) {
		return ""
	}
	r := fresh[i]
	switch r.Kind {
	case "header":
		return fmt.Sprintf("Block %d: 0x%x", r.Block, r.Addr)
	case "instr":
		return r.Text + " | " + r.Bytes
	}
	return ""
}

func (x *exec) origEntryLine() int {
	entry := x.s.ld.Code.Entrypoint()
	line := 0
	for bi, b := range x.s.ld.Code.Blocks() {
		if bi > 0 {
			line++
		}
		line++ // header
		for _, in := range b.Instructions() {
			if in.OrigAddr() == entry {
				return line
			}
			line++
		}
	}
	return -1
}

func (x *exec) judgeAddress(c *pendingCmd, arg string, failed bool, after int) {
	v, checked := parseChecked(arg, false)
	x.ctx.MarkNonTrivial()
	if !checked || !fits64(v) {
		x.ctx.Probe("address_malformed")
		if !failed {
			x.fail("C30", "address-parse", "address/malformed-accepted", "address argument %q is none of decimal / 0x / 0b / 0-octal 64-bit forms but was not answered with an error", arg)
		} else if m := regexp.MustCompile(`no line with address 0x([0-9a-fA-F]+) found`).FindStringSubmatch(c.out); m != nil {
			// answered with an error, but with the one that says the argument
			// was understood as an address
			x.fail("C30", "address-parse", "address/malformed-understood", "address argument %q is none of decimal / 0x / 0b / 0-octal 64-bit forms but was taken for the address 0x%s", arg, m[1])
		}
		return
	}
	a := v.Uint64()
	form := "dec"
	switch {
	case strings.HasPrefix(arg, "0x") || strings.HasPrefix(arg, "0X"):
		form = "hex"
	case strings.HasPrefix(arg, "0b") || strings.HasPrefix(arg, "0B"):
		form = "bin"
	case len(arg) > 1 && arg[0] == '0':
		form = "oct"
	}
	if len(arg) == 1 {
		form = "dec1"
	}
	x.ctx.Probe("address_form:" + form)
	mem := x.memoryShown()
	exp := expectedMemRows(mem)
	var row *ExpRow
	for i := range exp {
		if exp[i].Begin == a&^15 {
			row = &exp[i]
		}
	}
	if failed {
		m := regexp.MustCompile(`no line with address 0x([0-9a-fA-F]+) found`).FindStringSubmatch(c.out)
		if m == nil {
			if row != nil && row.Cells[a&15] != ".." {
				x.fail("C32", "address-select", "address-select/stored-not-found", "address %#x (typed %q) is stored but 'address' answered: %s", a, arg, errLine(c.out))
			}
			x.fail("C30", "address-parse", "address/"+form+"/rejected", "address argument %q (= %#x) was answered with an error: %s", arg, a, errLine(c.out))
			return
		}
		got, _ := strconv.ParseUint(m[1], 16, 64)
		if got != a {
			x.fail("C30", "address-parse", "address/"+form+"/wrong-value", "address argument %q denotes %#x but was understood as %#x", arg, a, got)
			return
		}
		if row != nil && row.Cells[a&15] != ".." {
			x.fail("C32", "address-select", "address-select/stored-not-found", "address %#x is stored but 'address' reports no line with it", a)
		}
		return
	}
	if row == nil {
		x.fail("C32", "address-select", "address-select/absent-selected", "address %#x lies in no displayed window but 'address' did not report that", a)
		return
	}
	if after < 0 {
		return
	}
	for _, r := range parseMemRows(x.tr.lastFrame) {
		if r.Cursor && !r.Ellipsis {
			if r.Begin != a&^15 {
				x.fail("C30", "address-parse", "address/"+form+"/wrong-row", "address argument %q (= %#x): cursor is on the row of window %#x", arg, a, r.Begin)
			}
			return
		}
	}
}

func errLine(out string) string {
	for _, l := range strings.Split(out, "\n") {
		if strings.HasPrefix(l, "error: ") {
			return l
		}
	}
	return ""
}

// judgeValues: a checked-form number typed at a value prompt must become the
// typed integer modulo 2^(8w). Observable when the command is regmod, or when
// the state item is still what the prompt filled in.
func (x *exec) judgeValues(c *pendingCmd) {
	tok, _ := firstToken(c.line)
	if x.s.stat == nil {
		return
	}
	// the last accepted answer per item wins
	type item struct {
		reg, mem string
		addr     uint64
	}
	final := map[item]valueAnswer{}
	for _, v := range c.values {
		if _, ok := parseChecked(v.typed, true); ok {
			final[item{v.reg, v.mem, v.addr}] = v
		}
	}
	for it, v := range final {
		val, _ := parseChecked(v.typed, true)
		mod := new(big.Int).Lsh(big.NewInt(1), uint(8*v.width))
		want := new(big.Int).Mod(val, mod)
		wantBytes := make([]byte, v.width)
		be := want.Bytes()
		for i := 0; i < len(be) && i < v.width; i++ {
			wantBytes[i] = be[len(be)-1-i]
		}
		cls := "positive"
		if val.Sign() < 0 {
			cls = "negative"
		} else if val.BitLen() > 8*v.width {
			cls = "wider-than-prompt"
		}
		var got []byte
		if it.reg != "" {
			if !oneOf(tok, "regmod", "rmod") {
				// a step may overwrite the register it asked for; only
				// judge registers the step leaves alone (conservatively:
				// registers still holding a value of the prompt's width
				// that was not changed by the step are indistinguishable,
				// so steps are judged through memory and regmod only).
				continue
			}
			ex, ok := x.s.stat.Regs.Load(expr.Key(it.reg), expr.Width(v.width))
			if !ok {
				continue
			}
			cst, isC := ex.(expr.Const)
			if !isC {
				continue
			}
			got = cst.Bytes()
		} else {
			continue // memory supplied during a step may be overwritten by the same step
		}
		x.ctx.Probe("value_judged:" + cls)
		x.ctx.MarkNonTrivial()
		if string(got) != string(wantBytes) {
			x.fail("C30", "value-parse", "value/"+cls, "typed %q at a %d-byte prompt for %s: state holds %x, expected %x (the typed integer modulo 2^%d, little-endian)",
				v.typed, v.width, it.reg+it.mem, got, wantBytes, 8*v.width)
			return
		}
	}
}

// checkSuppliedValue is called at the Read following an answered value
// prompt while the same command is still in progress: the emulator stores a
// supplied value immediately, so it is observable before the step's effects.
func (x *exec) checkSuppliedValue(v valueAnswer) {
	val, ok := parseChecked(v.typed, true)
	if !ok || x.s.stat == nil {
		return
	}
	mod := new(big.Int).Lsh(big.NewInt(1), uint(8*v.width))
	want := new(big.Int).Mod(val, mod)
	wantBytes := make([]byte, v.width)
	be := want.Bytes()
	for i := 0; i < len(be) && i < v.width; i++ {
		wantBytes[i] = be[len(be)-1-i]
	}
	cls := "positive"
	if val.Sign() < 0 {
		cls = "negative"
	} else if val.BitLen() > 8*v.width {
		cls = "wider-than-prompt"
	}
	var ex expr.Expr
	var have bool
	core.Guard(func() {
		if v.reg != "" {
			ex, have = x.s.stat.Regs.Load(expr.Key(v.reg), expr.Width(v.width))
		} else {
			ex, have = x.s.stat.Mems.Load(expr.Key(v.mem), model.Addr(v.addr), expr.Width(v.width))
		}
	})
	if !have {
		return
	}
	c, isC := ex.(expr.Const)
	if !isC {
		return
	}
	x.ctx.Probe("supplied_value_judged:" + cls)
	x.ctx.MarkNonTrivial()
	if string(c.Bytes()) != string(wantBytes) {
		x.fail("C30", "value-parse", "value/"+cls, "typed %q at a %d-byte prompt for %s%s: state holds %x, expected %x (the typed integer modulo 2^%d, little-endian)",
			v.typed, v.width, v.reg, v.mem, c.Bytes(), wantBytes, 8*v.width)
	}
}

// next is called at every Read of the replayed session.
func (x *exec) next(o *Obs) Ev {
	ctx := x.ctx
	ctx.Note("read kind=%s out=%016x", o.Kind, core.HashString(o.Out))

	// value-prompt protocol (C30): a clearly malformed answer must be
	// answered with "error:" and the same item must be prompted again.
	if x.lastValue != nil {
		lv := *x.lastValue
		if x.lastBad {
			if !x.wantAck {
				// first Read after the malformed answer
				if !(o.Kind == pAck && hasErrorLine(o.Out)) {
					x.fail("C30", "value-reject", "value/malformed-accepted", "typed %q at a value prompt (empty / underscore / malformed) but it was not rejected with an error; tool printed %q", lv.typed, tailStr(o.Out, 200))
				}
				x.wantAck = true
			} else {
				if !(o.Kind == pValue && o.Reg == lv.reg && o.Mem == lv.mem && o.Addr == lv.addr && o.Width == lv.width) {
					x.fail("C30", "value-reject", "value/not-reprompted", "after rejecting %q the tool did not prompt again for the same item", lv.typed)
				}
				x.lastValue, x.wantAck = nil, false
				ctx.Probe("value_rejected_and_reprompted")
			}
		} else if x.wantAck {
			// second re-entry after an error followed a well-formed
			// answer: it was a rejection of the value iff the same item is
			// prompted again (otherwise the command itself failed).
			x.lastValue, x.wantAck = nil, false
			if _, ok := parseChecked(lv.typed, true); ok && o.Kind == pValue && o.Reg == lv.reg && o.Mem == lv.mem && o.Addr == lv.addr && o.Width == lv.width {
				x.fail("C30", "value-parse", "value/checked-form-rejected", "typed %q (a well-formed number) at a value prompt but it was rejected and the item prompted again", lv.typed)
			}
		} else if o.Kind == pAck && hasErrorLine(o.Out) {
			x.wantAck = true
		} else {
			// accepted. Observable only while the step's effects have not
			// been applied yet (another value prompt of the same step
			// follows), or when the command has no effects of its own
			// (regmod).
			tok := ""
			if x.tr.pending != nil {
				tok, _ = firstToken(x.tr.pending.line)
			}
			if o.Kind == pValue || oneOf(tok, "regmod", "rmod") {
				x.checkSuppliedValue(lv)
			}
			x.lastValue = nil
		}
	}

	x.judgeFrames(o)
	if fin := x.tr.observe(o); fin != nil && !x.stop {
		x.judge(fin)
	}
	if !x.stop {
		x.judgeScreen(o)
	}

	for {
		if x.stop || x.idx >= len(x.t.Evs) {
			return x.windDown(o)
		}
		ev := x.t.Evs[x.idx]
		x.ev = x.idx
		if !isInput(ev.K) {
			x.idx++
			ctx.Event(x.ev, fmt.Sprintf("%s %d %s", ev.K, ev.N, ev.V))
			switch ev.K {
			case "resize":
				if o.Kind == pCommand || true {
					x.s.applyTerminal(ev)
					ctx.Fault("resize")
					if ev.N < 8 {
						ctx.Fault("resize_tiny")
					} else if ev.N >= 100 {
						ctx.Fault("resize_huge")
					}
				}
			case "notty":
				if o.Kind == pCommand {
					x.s.applyTerminal(ev)
					ctx.Fault("not_a_tty")
				}
			case "render":
				if o.Kind == pCommand {
					x.doRender(ev)
				}
			case "memlab":
				if o.Kind == pCommand {
					x.memLab(ev.N)
				}
			}
			continue
		}
		// stream end inside a value prompt would make the pinned tool spin
		// without ever re-entering the simulator: defer it (DESIGN 6.5).
		if o.Kind == pValue && oneOf(ev.K, "eof", "readerr", "overlong") {
			ctx.Probe("stream_end_deferred_at_value_prompt")
			return Ev{K: "line", S: "0"}
		}
		x.idx++
		ctx.Event(x.ev, fmt.Sprintf("%s %q %q %d @%s", ev.K, ev.S, ev.S2, ev.N, o.Kind))
		switch ev.K {
		case "split":
			ctx.Fault("split_line")
		case "glue":
			ctx.Fault("glued_lines")
		case "crlf":
			ctx.Fault("crlf")
		case "overlong":
			ctx.Fault("overlong_line")
		case "eof":
			ctx.Fault("eof")
		case "readerr":
			ctx.Fault("read_error")
		case "line":
			if o.Kind == pCommand && strings.TrimSpace(ev.S) == "" {
				if ev.S == "" {
					ctx.Fault("blank_line")
				} else {
					ctx.Fault("whitespace_line")
				}
			}
		}
		if o.Kind == pCommand {
			x.freshAtCmd = freshListing(x.s.ld.Code)
		}
		if o.Kind == pValue {
			va := valueAnswer{o.Reg, o.Mem, o.Addr, o.Width, strings.TrimSuffix(ev.S, "\r")}
			if ev.K == "line" || ev.K == "crlf" || ev.K == "split" {
				x.lastValue = &va
				x.lastBad = clearlyMalformed(va.typed)
				x.wantAck = false
			}
		}
		return ev
	}
}

// windDown ends a session whose trace ran out (or that already failed):
// answer value prompts with 0, acknowledge, quit, then end the stream at a
// non-value prompt.
func (x *exec) windDown(o *Obs) Ev {
	x.tail++
	if o.Kind == pValue {
		x.ctx.Probe("trace_exhausted_at_value_prompt")
		return Ev{K: "line", S: "0"}
	}
	if x.tail > 12 || x.stop {
		return Ev{K: "eof"}
	}
	if o.Kind == pCommand {
		return Ev{K: "line", S: "quit"}
	}
	return Ev{K: "line", S: ""}
}

func tailStr(s string, n int) string {
	if len(s) > n {
		return "..." + s[len(s)-n:]
	}
	return s
}

func (e *Engine) Execute(tr core.Trace, ctx *core.Ctx) {
	t := tr.(*Trace)
	if len(t.Lab) > 0 {
		curTrace = t
		x := &exec{ctx: ctx, t: t, tr: newTracker()}
		x.promptLab(t)
		return
	}
	if len(t.RegLab) > 0 {
		curTrace = t
		x := &exec{ctx: ctx, t: t, tr: newTracker()}
		x.regLab(t)
		return
	}
	if t.Desc == nil {
		return
	}
	ld, err := loadProgram(t.Desc)
	if err != nil {
		ctx.Probe("program_not_loadable")
		return
	}
	curTrace = t
	x := &exec{ctx: ctx, t: t, tr: newTracker()}
	s := &session{ld: ld}
	x.s = s
	s.next = x.next
	s.onDeliver = func(o *Obs, ev Ev) { x.tr.delivered(o, ev) }
	res := s.run()
	x.ev = len(t.Evs)
	ctx.Note("run end err=%v panic=%v", res.err != nil, res.panicked)
	if res.panicked {
		if os.Getenv("VERIF_DEBUG_STACK") != "" {
			fmt.Fprintln(os.Stderr, core.LastPanicStack)
		}
		if strings.Contains(firstFrames(core.LastPanicStack, 1), "/verifsim/") {
			// the harness itself failed: never a verdict about the tool
			panic("HARNESS: panic inside the simulator: " + res.msg + "\n" + core.LastPanicStack)
		}
		line := ""
		if x.tr.pending != nil {
			line = x.tr.pending.line
		}
		tok, args := firstToken(line)
		ctx.Fail(ownerOfCrash(res.fn), "no-crash", "panic/"+res.fn+"/"+x.tr.mode+"/"+core.MsgClass(res.msg), x.ev,
			"the UI crashed in mode %s while processing %q (command %q, argument class %s, terminal %d rows): %s", x.tr.mode, line, tok, argClass(args), s.rows, res.msg)
		return
	}
	if x.stop {
		return
	}
	// Run() returns nil exactly on quit at depth 0; an error only for stream
	// end / failure or a failed terminal query.
	left := strings.Contains(res.tail, "leaving app") || strings.Contains(x.tr.accum, "leaving app")
	switch {
	case res.err == nil && !left:
		ctx.Fail("C22", "run-returns", "run/nil-without-quit", x.ev, "Run() returned nil although the application was not quit")
	case res.err != nil && !(s.ended || strings.Contains(res.err.Error(), "terminal size") || strings.Contains(res.err.Error(), "cannot print screen")):
		ctx.Fail("C22", "run-returns", "run/unexpected-error", x.ev, "Run() returned an unexpected error: %v", res.err)
	case res.err != nil && !s.ended && strings.Contains(res.err.Error(), "element printing failed") && !strings.Contains(res.err.Error(), "not enough lines to render"):
		// the program gave up in the middle of a session although input was
		// still flowing and the terminal could be asked: the line typed last
		// was neither executed nor answered with an error message
		line := ""
		if x.tr.pending != nil {
			line = x.tr.pending.line
		}
		ctx.Fail("C22", "run-returns", "run/ended-by-render-error", x.ev, "after %q the program ended itself: %v", line, res.err)
	}
	if res.err != nil && strings.Contains(res.err.Error(), "not enough lines to render") {
		ctx.Probe("render_error_returned")
	} else if res.err != nil && strings.Contains(res.err.Error(), "element printing failed") {
		// a view that was granted its declared height could not be drawn:
		// whatever it declares, it did not write it
		ctx.Fail("C24", "render-fixed", "render-error/"+core.MsgClass(res.err.Error()), x.ev,
			"rendering failed although the terminal (%d rows) grants the view's declared minimum: %v", s.rows, res.err)
	}
	if len(x.tr.done) > 0 {
		switch ctx.Prop {
		case "C22", "C24":
			ctx.MarkNonTrivial()
		case "C23":
			if x.sawMove {
				ctx.MarkNonTrivial()
			}
		case "C32":
			for _, c := range x.tr.done {
				if c.mode == "mem" {
					ctx.MarkNonTrivial()
				}
			}
		}
	}
	_ = os.Stdout
}

// firstFrames returns the first n function lines below the panic() frame.
func firstFrames(stack string, n int) string {
	var sb strings.Builder
	seen := false
	cnt := 0
	for _, l := range strings.Split(stack, "\n") {
		if strings.HasPrefix(l, "panic(") {
			seen = true
			continue
		}
		if !seen || strings.HasPrefix(l, "\t") || strings.HasPrefix(l, " ") {
			continue
		}
		if strings.HasPrefix(l, "runtime.") {
			continue
		}
		sb.WriteString(l + "\n")
		cnt++
		if cnt >= n {
			break
		}
	}
	return sb.String()
}

// ownerOfCrash attributes a panic to the property that owns the executing
// surface: rendering code -> C24, everything else reached from input -> C22.
func ownerOfCrash(fn string) string {
	st := core.LastPanicStack
	switch {
	case strings.Contains(st, "View).Print(") || strings.Contains(st, "regView).Print(") || strings.Contains(st, "Composite).Print("):
		return "C24"
	case strings.Contains(fn, "parseAddr"):
		return "C30"
	case strings.Contains(fn, "View).Print") || strings.Contains(fn, "regView") ||
		strings.Contains(fn, "/view.") || strings.Contains(fn, "View).Format") || strings.Contains(fn, "formatMemLine"):
		return "C24"
	}
	return "C22"
}

func (e *Engine) Describe(prop string) core.Description {
	d := core.Description{QuickRuns: 8000}
	base := "Each run = one whole interactive session (real consoleui.UI.Run with the real disassembler, emulator and memory-view modes, real line reader, real terminal-size ioctl on a pty owned by the worker, real rendering to a captured stdout) on a generated RV64IMA program loaded by the real pipeline. A seeded simulated user chooses 1-40 (thorough: up to 120) input lines reacting to what the tool printed: every command and alias of the current mode with in-range, boundary, huge, negative and non-numeric arguments, odd spacing, blank and garbage lines, numbers in every base at value prompts; the scheduler injects terminal resizes (1-300 rows, biased around the view minimum), a non-terminal stdin for one render, and stream faults (split lines, glued lines, CRLF, over-long line, EOF, read error; stream end only at non-value prompts). The recorded trace holds concrete events only and is re-executed with the oracles. "
	switch prop {
	case "C22":
		d.Rule = base + "Oracle: no panic escapes Run(); unknown commands, too few arguments and non-numeric arguments must be answered with 'error:'; Run() returns nil exactly after quitting the application and an error only for stream end/failure or a failed terminal query. Non-trivial = at least one command reached a verdict; distinct = distinct event-log hashes."
	case "C23":
		d.Rule = base + "Biased to move commands (instruction / block / header mixes) and alllines. Oracle: every listing row of every frame and every alllines dump equals the same row of a fresh rendering of the current deps.Code (block header with position and start address, instruction text and bytes, single blank separators; marks ignored); a move answered with an error leaves the rendering unchanged. Non-trivial = session with at least one move command; distinct = distinct event-log hashes."
	case "C24":
		d.Rule = base + "Biased to resizes before renders. Oracle: every frame written to a terminal of H rows has at most H lines unless the 'not sufficient' notice is shown; direct driver: at command prompts the current listing view, emulator composite and a memory view over the emulator's memory are rendered with Print(n) for n from the declared minimum to minimum+40: no panic, at most n lines, exactly n for fixed-height views; a render error returned to the caller is accepted. Non-trivial = at least one command reached a verdict; distinct = distinct event-log hashes."
	case "C30":
		d.Rule = base + "Biased to emulation (value prompts), regmod and memory-view 'address'. Oracle: an address argument in decimal / 0x / 0b / 0-octal form must select the row containing it or be reported absent with exactly that address echoed; any other argument must be answered with an error; a well-formed number typed at a w-byte prompt must appear in the emulator state as the integer modulo 2^(8w) (read from the live state at the next simulator re-entry); empty / underscore / malformed answers must be rejected and the same item prompted again. Non-trivial = at least one address or value judged; distinct = distinct event-log hashes."
	case "C31":
		d.Rule = base + "Biased to navigation. Oracle: cursor parsed from the frame before and after down/up/goto/entrypoint/find: error => unchanged; else +-N, N, the entry instruction's line (current order), the first line after the cursor, cyclically and excluding it, whose text matches the POSIX regex typed (the words of the line joined by single blanks; patterns with blanks or anchors are judged against the exact line text - indentation and column padding measured on the screen - when that reconstruction reproduces every displayed row, and left unjudged otherwise). Non-trivial = at least one navigation command judged with a visible cursor; distinct = distinct event-log hashes."
	case "C32":
		d.Rule = base + "Biased to emulation then 'memory memory'. Oracle: rows of every memory-view frame and of a direct whole-view render equal one row per 16-byte window overlapping the emulator memory's stored blocks, ascending, each stored byte's current value, '..' for absent bytes, exactly one ellipsis row between non-consecutive rows; 'address' selects the row of a stored byte or reports absence. Non-trivial = session that entered a memory view; distinct = distinct event-log hashes."
	}
	d.ComponentsReal = []string{"consoleui.UI.Run / parseCommand / processCommand", "disassemble, emulate, memview modes and commands", "linereader (input through the verif hook)", "view.Print with terminal.GetSize on a real pty", "lines.View, memoryView, regView, Composite", "emulator + state + memory", "ELF loader, RISC-V lifter, deps.NewCode"}
	d.ComponentsStub = []string{"runIU wiring of cmd/mltwist/main.go replicated in the harness (about 25 lines; `./check selftest-transcript` compares whole sessions byte for byte with the real binary on a pty)"}
	if prop == "C30" {
		d.Rule += " One run in six is the prompt lab instead of a session: a synthetic straight-line code (instruction i copies register s<i> to d<i> at 1..255 bytes) in the real emulation mode over an empty state; every step makes the real state provider prompt at that width; well-formed answers must be accepted and leave the typed integer modulo 2^(8w) in the state, empty / underscored / malformed ones must be refused."
		d.ComponentsStub = append(d.ComponentsStub, "prompt lab: the code model is built from hand-made parser.Instruction values (no ELF, no lifter); emulation mode, emulator, state provider, line reader and state are real")
	}
	d.Rule += " One session in five is a walker (entry point, emulate, then step after step with pointer prompts answered into the image's data); programs include memory-heavy straight-line code, runs of identical instructions and a second data block behind a small hole."
	d.Assumptions = []string{
		"frames are parsed from the captured output with regular expressions written from the visible layout; fresh renderings come from deps.Code's public API and from the live memory object",
		"stream end is injected only at non-value prompts (the pinned tool retries forever at a value prompt after EOF, an observation outside the given properties)",
		"a per-worker watchdog on a real timer can only abort (exit 2), never decide",
		"sampling, not enumeration",
	}
	return d
}
