package uisim

import (
	"encoding/hex"
	"math"
	"encoding/json"
	"fmt"
	"math/big"
	"mltwist/internal/consoleui/verifsim/core"
	"mltwist/internal/consoleui/verifsim/elfref"
	"mltwist/internal/consoleui/verifsim/imggen"
	"mltwist/internal/consoleui/verifsim/rvref"
	"mltwist/pkg/expr"
	"strings"
)

type Trace struct {
	Desc *elfref.Desc `json:"desc"`
	Evs  []Ev         `json:"evs"`
	// Lab (C30): not a session but the prompt lab - widths of the value
	// prompts to provoke, Evs are the answers typed (see lab.go)
	Lab []int `json:"lab,omitempty"`
	// RegLab (C24): not a session either - a register file no RV64 program
	// produces (names of any length, values of any width) under the real
	// emulation view, rendered at several heights
	RegLab []RegSpec `json:"reglab,omitempty"`
}

// RegSpec is one preloaded register of the register lab.
type RegSpec struct {
	Name string `json:"name"`
	W    int    `json:"w"`
	Hex  string `json:"hex"` // little-endian value bytes (cut or zero-extended to W)
}

func (t *Trace) Len() int { return len(t.Evs) }
func (t *Trace) Without(from, to int) core.Trace {
	c := &Trace{Desc: t.Desc, Lab: t.Lab, RegLab: t.RegLab}
	c.Evs = append(append([]Ev(nil), t.Evs[:from]...), t.Evs[to:]...)
	return c
}
func (t *Trace) Simplify(i int) []core.Trace {
	if i < 0 {
		return nil
	}
	ev := t.Evs[i]
	var out []core.Trace
	repl := func(n Ev) {
		c := &Trace{Desc: t.Desc, Evs: append([]Ev(nil), t.Evs...)}
		c.Evs[i] = n
		out = append(out, c)
	}
	switch ev.K {
	case "split", "crlf":
		repl(Ev{K: "line", S: ev.S})
	case "glue":
		repl(Ev{K: "line", S: ev.S})
		repl(Ev{K: "line", S: ev.S2})
	case "line":
		if strings.Contains(ev.S, "  ") {
			repl(Ev{K: "line", S: strings.Join(strings.Fields(ev.S), " ")})
		}
	}
	return out
}

type Engine struct{}

func init() { core.Register(&Engine{}) }

func (*Engine) Name() string    { return "uisim" }
func (*Engine) Props() []string { return []string{"C22", "C23", "C24", "C30", "C31", "C32"} }
func (*Engine) Decode(raw json.RawMessage) (core.Trace, error) {
	t := &Trace{}
	if err := json.Unmarshal(raw, t); err != nil {
		return nil, err
	}
	return t, nil
}

// genProgram: 1-3 code blocks of unequal length, optional data segment.
func genProgram(r *core.Rand) *elfref.Desc {
	n := r.Range(1, 12)
	if r.Chance(1, 3) {
		n = r.Range(12, 64)
	}
	base := uint64(0x10000 + 4*r.Intn(4096))
	o := rvref.ProgOpts{
		Regs: r.Range(2, 5), JumpPct: r.Intn(14), MemPct: r.Intn(35), GapPct: r.Intn(10) + r.Intn(3)/2*r.Range(5, 20),
		CSRPct: r.Intn(3), SysPct: r.Intn(3), PtrRegs: []int{5, 6},
	}
	if r.Chance(1, 4) {
		// many small blocks (sizes 1-4, several of equal length): block
		// moves that shift other blocks by different amounts
		n = r.Range(6, 24)
		o.GapPct, o.JumpPct = r.Range(25, 50), 0
	}
	if r.Chance(1, 6) {
		// plenty of control and status register accesses, to well-known and
		// to arbitrary registers
		o.CSRPct = r.Range(15, 40)
		o.CSRs = []int{0x300, 0x301, 0x304, 0x305, 0x320, 0x340, 0x341, 0x342, 0x343, 0x344, 0xb00, 0xb02, 0xb03, 0xb1f, 0xc00, 0xc01, 0xc02, 0xf11, 0xf14, 0x7a0, 0x180, 0x100, 0x001, 0x002, 0x003}
		for k := r.Range(1, 6); k > 0; k-- {
			o.CSRs = append(o.CSRs, r.Intn(4096))
		}
	}
	if r.Chance(1, 5) {
		// memory-heavy straight-line code through one pointer: stores of
		// different widths land on and inside each other
		o.MemPct, o.JumpPct, o.PtrRegs = r.Range(50, 85), r.Intn(3), []int{5}
	}
	prog := rvref.RandomProgram(r, base, n, o)
	if r.Chance(1, 4) {
		// runs of identical instructions (same text, same bytes)
		p := r.Range(10, 50)
		for i := 1; i < len(prog); i++ {
			k := rvref.Kind(prog[i-1].Name)
			if r.Intn(100) < p && k != "B" && k != "J" && prog[i-1].Name != "jalr" && rvref.Kind(prog[i].Name) != "B" && rvref.Kind(prog[i].Name) != "J" && prog[i].Name != "jalr" {
				src := i - 1
				if d := r.Range(1, 3); i-d >= 0 && rvref.Kind(prog[i-d].Name) != "B" && rvref.Kind(prog[i-d].Name) != "J" && prog[i-d].Name != "jalr" {
					src = i - d // identical lines with others in between, too
				}
				prog[i].Word, prog[i].Name, prog[i].Text = prog[src].Word, prog[src].Name, prog[src].Text
			}
		}
	}
	entry := prog[r.Intn(len(prog))].Addr
	var data []byte
	if r.Chance(2, 3) {
		data = r.Bytes(r.Range(1, 48))
	}
	dataAddr := uint64(0x20000 + r.Intn(64))
	bss := r.Intn(3) * r.Intn(24)
	segs := []imggen.DataSeg{{Addr: dataAddr, Data: data, Bss: bss}}
	if len(data) > 0 && r.Chance(1, 3) {
		// a second image block a few bytes behind the first
		segs = append(segs, imggen.DataSeg{Addr: dataAddr + uint64(len(data)+bss+r.Range(1, 7)), Data: r.Bytes(r.Range(1, 24))})
	}
	if r.Chance(1, 6) {
		// a loadable segment without a single byte, at an address that is no
		// multiple of 16, in a window nothing else touches
		segs = append(segs, imggen.DataSeg{Addr: 0x30000 + uint64(16*r.Intn(4)+r.Range(1, 15)), Empty: true})
	}
	return imggen.ExecSegs(prog, entry, segs)
}

type policy struct {
	r      *core.Rand
	prop   string
	tr     *tracker
	s      *session
	t      *Trace
	budget int // input lines left
	nLines int // listing length
	// swarm knobs
	pResize, pStream, pGarbage int
	quitting                  bool
	// walker: this simulated user walks through the program - entry point,
	// emulate, then step after step, pointing the pointer registers into the
	// data of the image (few other commands, no stream faults)
	lastFind      string // the previous single-word search pattern
	prevMode      string // mode at the previous command prompt
	memReopen     int    // after leaving a memory view: step, then open it again
	walker        bool
	walkStage     int
	lastBlockMove bool
	afterEnd                  int
}

func (p *policy) num() string {
	r := p.r
	switch r.Intn(14) {
	case 0:
		return "0"
	case 1:
		return fmt.Sprint(p.nLines - 1)
	case 2:
		return fmt.Sprint(p.nLines)
	case 3:
		return fmt.Sprint(p.nLines + 1)
	case 4:
		return "9223372036854775807"
	case 5:
		return "18446744073709551616"
	case 6:
		return fmt.Sprint(-1 - r.Intn(5))
	case 7:
		return []string{"x", "1.5", "0x10", "", "１", "1e3", "+2"}[r.Intn(7)]
	case 8: // a decimal line number written with leading zeros (now and then thousands)
		if r.Chance(1, 5) {
			return strings.Repeat("0", r.Range(4090, 5000)) + fmt.Sprint(r.Intn(p.nLines+1))
		}
		return strings.Repeat("0", r.Range(1, 3)) + fmt.Sprint(r.Intn(p.nLines+1))
	default:
		return fmt.Sprint(r.Intn(p.nLines + 1))
	}
}

func (p *policy) smallNum() string {
	if p.r.Chance(1, 6) {
		return p.num()
	}
	return fmt.Sprint(p.r.Intn(6))
}

func spaced(r *core.Rand, words ...string) string {
	sep := " "
	if r.Chance(1, 8) {
		sep = strings.Repeat(" ", r.Range(2, 4))
	}
	s := strings.Join(words, sep)
	if r.Chance(1, 10) {
		s = strings.Repeat(" ", r.Range(1, 3)) + s
	}
	if r.Chance(1, 10) {
		s += strings.Repeat(" ", r.Range(1, 3))
	}
	return s
}

func pick(r *core.Rand, xs ...string) string { return xs[r.Intn(len(xs))] }

// spellNumber writes v in a random accepted base / case / sign form.
func spellNumber(r *core.Rand, v *big.Int, allowMinus bool) string {
	neg := v.Sign() < 0
	a := new(big.Int).Abs(v)
	var s string
	switch r.Intn(5) {
	case 0:
		s = pick(r, "0x", "0X") + a.Text(16)
		if r.Bool() {
			s = s[:2] + strings.ToUpper(s[2:])
		}
	case 1:
		s = pick(r, "0b", "0B") + a.Text(2)
	case 2:
		s = "0" + a.Text(8)
		if a.Sign() == 0 {
			s = "0"
		}
	default:
		s = a.Text(10)
	}
	if neg && allowMinus {
		s = "-" + s
	}
	return s
}

func (p *policy) garbage() string {
	r := p.r
	switch r.Intn(12) {
	case 0:
		return " "
	case 1:
		return "   "
	case 2:
		return "\t"
	case 3:
		return pick(r, "frobnicate", "xyzzy 1 2", "Q", "DOWN 1", "-", "?", "help me", "9")
	case 4:
		return pick(r, "down", "up", "goto", "move", "move 1", "bounds", "find", "address", "memory", "regmod")
	case 5:
		return spaced(r, pick(r, "down", "up", "goto", "bounds"), p.num(), p.num())
	case 6:
		return spaced(r, "move", p.num(), p.num(), p.num())
	case 7:
		return pick(r, "down x", "goto 1x", "move a b", "up -", "goto 99999999999999999999")
	case 8:
		return strings.Repeat("z", r.Range(100, 3000))
	case 9:
		return "\x00\x01\x7f"
	case 10:
		return pick(r, "find [", "find (", "find *", "find a{2,1}", "find \\")
	default:
		return ""
	}
}

func (p *policy) disCommand() string {
	r := p.r
	if p.lastBlockMove {
		// right after a block move: commands that depend on where blocks
		// start in the listing
		p.lastBlockMove = false
		switch r.Intn(5) {
		case 0:
			return "entry"
		case 1, 2:
			f := r.Intn(p.nLines)
			return spaced(r, "move", fmt.Sprint(f), fmt.Sprint(f+r.Range(-2, 2)))
		case 3:
			return spaced(r, "bounds", fmt.Sprint(r.Intn(p.nLines)))
		}
	}
	w := []int{14, 10, 8, 4, 10, 12, 4, 3, 3, 8}
	switch p.prop {
	case "C23":
		w = []int{6, 4, 3, 2, 2, 30, 6, 12, 1, 2}
	case "C31":
		w = []int{20, 16, 14, 10, 16, 6, 1, 2, 1, 2}
	case "C24":
		w = []int{14, 10, 10, 4, 4, 6, 2, 1, 2, 12}
	case "C30", "C32":
		w = []int{6, 3, 6, 6, 2, 2, 1, 1, 1, 30}
	}
	switch r.Weighted(w) {
	case 0:
		return spaced(r, pick(r, "down", "d"), p.smallNum())
	case 1:
		return spaced(r, pick(r, "up", "u"), p.smallNum())
	case 2:
		return spaced(r, pick(r, "goto", "g"), p.num())
	case 3:
		return spaced(r, pick(r, "entrypoint", "entry"))
	case 4:
		pats := []string{"add", "x1", "Block", "ld", "^$", "0x", "x[0-9]+, x0", ".", "zzzz", "Block 1", "s[bhwd] ", "\\|", "[", "j", "beq|bne",
			".*", "x*", "q?", "(add|sub|ld)", "x1,", "x2,", "x3,", "1:", "0:", "x1,|x2,", "2:", ",", ":", "a0", "b3", "ef", "[0-9a-f][0-9a-f] [0-9a-f][0-9a-f]", "ff", "block", "e[0-9]", "1b", "^addi", "^ld", "^[a-z]", "^ +add", "^    ", "^Block", "^ *l[dw]", "^sd", "^x", "x1,\tx", "add\t", "x2,\u00a0x", "Block\t1", "\tx1", "ld\vx", "[0-9A-F][0-9A-F] [0-9A-F][0-9A-F]", "Block [2-9]", "x3[01]?", "lw|ld|sd|sw"}
		if p.lastFind != "" && r.Chance(1, 4) {
			// the previous search once more, continued by further words
			more := pick(r, "x1,", "x2,", "x5,", "x0", "1", "0x", "[0-9]+", ".*", "x[0-9]+,")
			w := p.lastFind
			p.lastFind = ""
			return spaced(r, pick(r, "find", "f", "/"), w, more)
		}
		if r.Chance(1, 4) {
			return spaced(r, pick(r, "find", "f", "/"), pick(r, pats...), pick(r, pats...))
		}
		p.lastFind = pick(r, append(pats, "lui", "addi", "add", "ld", "sd", "lw", "Block")...)
		if r.Chance(1, 30) {
			// a pattern longer than any buffer: a short one that matches
			// followed by thousands of optional nothings and one impossible letter
			p.lastFind = pick(r, "add", "x1", "Block", "l[dw]") + strings.Repeat("x?", r.Range(2050, 2400)) + pick(r, "Q", "")
		}
		return spaced(r, pick(r, "find", "f", "/"), p.lastFind)
	case 5:
		from := p.num()
		to := p.num()
		if r.Chance(3, 4) { // near moves are the ones that get accepted
			f := r.Intn(p.nLines)
			d := r.Range(-3, 3)
			from, to = fmt.Sprint(f), fmt.Sprint(f+d)
		}
		if r.Chance(1, 4) && p.s != nil {
			// between two lines that read the same (with others in between)
			rows := freshListing(p.s.ld.Code)
			var pairs [][2]int
			for i := range rows {
				for j := i + 2; j <= i+4 && j < len(rows); j++ {
					if rows[i].Kind == "instr" && rows[j].Kind == "instr" && rows[i].Text == rows[j].Text && rows[i].Bytes == rows[j].Bytes {
						same := true
						for k := i; k <= j; k++ {
							if rows[k].Kind != "instr" {
								same = false
							}
						}
						if same {
							pairs = append(pairs, [2]int{i, j})
						}
					}
				}
			}
			if len(pairs) > 0 {
				pr := pairs[r.Intn(len(pairs))]
				if r.Bool() {
					pr[0], pr[1] = pr[1], pr[0]
				}
				from, to = fmt.Sprint(pr[0]), fmt.Sprint(pr[1])
			}
		}
		if r.Chance(1, 4) && p.s != nil { // block move: two header lines
			var hdr []int
			for i, row := range freshListing(p.s.ld.Code) {
				if row.Kind == "header" {
					hdr = append(hdr, i)
				}
			}
			if len(hdr) >= 2 {
				from, to = fmt.Sprint(hdr[r.Intn(len(hdr))]), fmt.Sprint(hdr[r.Intn(len(hdr))])
				p.lastBlockMove = true
			}
		}
		return spaced(r, pick(r, "move", "mv", "m"), from, to)
	case 6:
		return spaced(r, pick(r, "bounds", "b"), p.num())
	case 7:
		return "alllines"
	case 8:
		return pick(r, "help", "h")
	default:
		return pick(r, "emulate", "emul", "e")
	}
}

func (p *policy) emuCommand() string {
	r := p.r
	w := []int{40, 5, 14, 8, 4, 3}
	if p.prop == "C32" || p.prop == "C30" {
		w = []int{30, 3, 30, 8, 2, 2}
	}
	switch r.Weighted(w) {
	case 0:
		return pick(r, "step", "s", "f", "fwd", "forward")
	case 1:
		return pick(r, "memories", "mems", "ms")
	case 2:
		return spaced(r, pick(r, "memory", "mem", "m"), pick(r, "memory", "memory", "memory", "io", "x", "#r:w:ip"))
	case 3:
		return spaced(r, pick(r, "regmod", "rmod"), pick(r, "x1", "x2", "x5", "x6", "x31", "#r:w:ip", "csr1", "nosuch", "x5=0x1234567890abcdef", "averyveryverylongregistername", "x"+strings.Repeat("1", 40)))
	case 4:
		return pick(r, "help", "h")
	default:
		return spaced(r, pick(r, "down", "goto", "move", "find"), p.num())
	}
}

func (p *policy) memCommand() string {
	r := p.r
	switch r.Weighted([]int{10, 8, 8, 30, 2}) {
	case 0:
		return spaced(r, pick(r, "down", "d"), p.smallNum())
	case 1:
		return spaced(r, pick(r, "up", "u"), p.smallNum())
	case 2:
		return spaced(r, pick(r, "goto", "g"), p.smallNum())
	case 3:
		return spaced(r, pick(r, "address", "addr", "a"), p.addressArg())
	default:
		return pick(r, "help", "h")
	}
}

func (p *policy) addressArg() string {
	r := p.r
	if r.Chance(1, 5) {
		return pick(r, "5", "0", "x", "0x", "0b", "-1", "1_000", "0x1g", "08", "18446744073709551616", "0b12", "", "0xFFFFFFFFFFFFFFFF", "07", "00",
			"0o17", "0O7", "0x_ff", "0x1_0", "0_7", "0b1_0", "+5", "0x-1", " 5", "1e3", "0x10000000000000000", "0b"+strings.Repeat("1", 65))
	}
	if r.Chance(1, 14) {
		// the last address there is (nothing can be stored in a row behind it)
		return spellNumber(r, new(big.Int).SetUint64(^uint64(0)-uint64(r.Intn(2))), false)
	}
	if r.Chance(1, 12) {
		// a well-formed number with a blank that is not a space glued to it
		// (the command line is split at spaces only)
		n := p.addressArg() // mostly an address that is really stored
		if len(n) > 200 {
			n = "0x10010"
		}
		ws := pick(r, "\t", "\v", "\f", "\u00a0", "\u2003", "\u0085")
		switch r.Intn(3) {
		case 0:
			return n + ws
		case 1:
			return ws + n
		default:
			k := r.Intn(len(n) + 1)
			return n[:k] + ws + n[k:]
		}
	}
	var a uint64
	if r.Chance(1, 25) { // a very long spelling (thousands of leading zeros)
		return pick(r, "0x", "0X") + strings.Repeat("0", r.Range(4090, 5000)) + fmt.Sprintf("%x", 0x10000+r.Intn(0x20100))
	}
	// addresses of memory that is really stored (begin, last byte, inside,
	// just outside of a stored block of the live memory)
	if p.s != nil && p.s.stat != nil && r.Chance(1, 2) {
		if mem := p.s.stat.Mems[expr.Key(p.tr.memKey)]; mem != nil {
			var ivs []uint64
			core.Guard(func() {
				for _, iv := range mem.Blocks().Intervals() {
					ivs = append(ivs, uint64(iv.Begin()), uint64(iv.End()))
				}
			})
			if len(ivs) > 0 {
				k := 2 * r.Intn(len(ivs)/2)
				b, e := ivs[k], ivs[k+1]
				switch r.Intn(5) {
				case 0:
					a = b
				case 1:
					a = e - 1
				case 2:
					a = e
				case 3:
					a = b - 1
				default:
					a = b + uint64(r.Intn(int(e-b)))
				}
				return spellNumber(r, new(big.Int).SetUint64(a), false)
			}
		}
	}
	switch r.Intn(5) {
	case 0:
		a = uint64(0x10000 + r.Intn(0x200))
	case 1:
		a = uint64(0x20000 + r.Intn(0x80))
	case 2:
		a = r.Uint64()
	case 3:
		a = uint64(r.Intn(64))
	default:
		a = r.InterestingU64()
	}
	return spellNumber(r, new(big.Int).SetUint64(a), false)
}

// pointerToTheEdge: when the register being asked for is the base of the
// memory access of the instruction about to execute, return a pointer that
// makes that access end exactly at 2^64, wrap around it, or end one byte
// below (a fault placed inside the operation in flight).
func (p *policy) pointerToTheEdge(o *Obs) (string, bool) {
	if o.Reg == "" || p.s == nil || p.s.stat == nil || !strings.HasPrefix(o.Reg, "x") {
		return "", false
	}
	var ip uint64
	ok := false
	core.Guard(func() {
		if ex, have := p.s.stat.Regs.Load(expr.IPKey, 8); have {
			if c, isC := ex.(expr.Const); isC {
				for i, b := range c.Bytes() {
					ip |= uint64(b) << (8 * uint(i))
				}
				ok = true
			}
		}
	})
	if !ok {
		return "", false
	}
	for _, in := range p.s.ld.Instrs {
		if uint64(in.Addr) != ip || len(in.Bytes) != 4 {
			continue
		}
		w := uint32(in.Bytes[0]) | uint32(in.Bytes[1])<<8 | uint32(in.Bytes[2])<<16 | uint32(in.Bytes[3])<<24
		if fmt.Sprintf("x%d", (w>>15)&31) != o.Reg {
			return "", false
		}
		var off, width int64
		switch w & 0x7f {
		case 0x03: // load
			off, width = int64(int32(w)>>20), int64(1)<<((w>>12)&3)
		case 0x23: // store
			off, width = int64(int32(w&0xfe000000)>>20)|int64((w>>7)&0x1f), int64(1)<<((w>>12)&3)
		case 0x2f: // atomic
			off, width = 0, int64(1)<<((w>>12)&3)
		default:
			return "", false
		}
		delta := []int64{0, 0, 1, -1, -width}[p.r.Intn(5)]
		return spellNumber(p.r, big.NewInt(-(width+off)+delta), true), true
	}
	return "", false
}

// codeAddress spells the address of some instruction of the program, in a
// third of the cases plus 1-3 (the middle of that instruction).
func (p *policy) codeAddress() (string, bool) {
	if p.s == nil || p.s.ld == nil || len(p.s.ld.Instrs) == 0 {
		return "", false
	}
	r := p.r
	in := p.s.ld.Instrs[r.Intn(len(p.s.ld.Instrs))]
	if r.Chance(1, 2) { // the last instruction of the code, or of a block
		in = p.s.ld.Instrs[len(p.s.ld.Instrs)-1]
		if bs := p.s.ld.Code.Blocks(); len(bs) > 0 && r.Bool() {
			b := bs[r.Intn(len(bs))]
			return spellNumber(r, new(big.Int).SetUint64(uint64(b.End())-uint64(r.Range(1, 3))), false), true
		}
	}
	a := uint64(in.Addr)
	if r.Chance(1, 3) {
		a += uint64(r.Range(1, 3))
	}
	return spellNumber(r, new(big.Int).SetUint64(a), false), true
}

func (p *policy) valueAnswer(w int) string {
	r := p.r
	if r.Chance(1, 7) {
		return pick(r, "", "1_0", "_", "0x", "abc", "0b2", "--1", "1 2", "0x_1", "12a", " 5", "5 ", "+5", "0o17", "09")
	}
	var v *big.Int
	if r.Chance(1, 10) { // a pointer into the last bytes of the address space
		if r.Bool() { // such that an access of 1/2/4/8 bytes ends exactly at 2^64
			return spellNumber(r, big.NewInt(int64(-(1<<uint(r.Intn(4)))-r.Intn(2)*r.Range(0, 24))), true)
		}
		return spellNumber(r, big.NewInt(int64(-1-r.Intn(40))), true)
	}
	if r.Chance(1, 25) { // a very long spelling (thousands of leading zeros)
		v := new(big.Int).SetBytes(r.Bytes(r.Range(1, w)))
		return pick(r, "0x", "0X", "-0x") + strings.Repeat("0", r.Range(4090, 5000)) + v.Text(16)
	}
	switch r.Intn(6) {
	case 0:
		v = big.NewInt(0)
	case 1:
		v = big.NewInt(int64(-1 - r.Intn(300)))
	case 2: // wider than the prompt, either sign
		v = new(big.Int).SetBytes(r.Bytes(w + r.Range(1, 9)))
		if r.Bool() {
			v.Neg(v)
		}
	case 3: // pointer into the data window
		v = big.NewInt(int64(0x20000 + r.Intn(64)))
	default:
		v = new(big.Int).SetBytes(r.Bytes(r.Range(1, w)))
		if r.Chance(1, 4) {
			v.Neg(v)
		}
	}
	return spellNumber(r, v, true)
}

// choose is the simulated user: called at every Read of a live session.
func (p *policy) choose(o *Obs) Ev {
	r := p.r
	emit := func(ev Ev) Ev {
		p.t.Evs = append(p.t.Evs, ev)
		return ev
	}
	// terminal events before the next render
	if o.Kind == pCommand && r.Intn(100) < p.pResize {
		ev := Ev{K: "resize"}
		switch r.Intn(6) {
		case 0:
			ev.N = r.Range(1, 7) // below the minimum of every mode
		case 1:
			ev.N = r.Range(6, 12) // around the minimum
		case 2:
			ev.N = r.Range(100, 300)
		default:
			ev.N = r.Range(8, 60)
		}
		emit(ev)
		p.s.applyTerminal(ev)
	}
	if o.Kind == pCommand && (p.prop == "C24" || p.prop == "C32") && r.Chance(1, 3) {
		// direct driver: render a view in its current state at a granted height
		v := pick(r, "dis", "emu", "mem")
		if p.prop == "C32" {
			v = "mem"
		}
		n := r.Intn(41)
		if r.Chance(1, 12) {
			// "as much as you like": heights no screen has
			n = []int{1 << 50, 1 << 60, math.MaxInt - 1, math.MaxInt}[r.Intn(4)]
		}
		emit(Ev{K: "render", V: v, N: n})
	}
	if o.Kind == pCommand && (p.prop == "C32" || p.prop == "C30") && r.Chance(1, 3) {
		// direct memory-view driver over a seeded memory (executed by the
		// executor while the tool is quiescent)
		emit(Ev{K: "memlab", N: r.Intn(1 << 30)})
	}
	if o.Kind == pCommand && p.pStream > 0 && r.Chance(1, 400) {
		ev := Ev{K: "notty"}
		emit(ev)
		p.s.applyTerminal(ev)
	}

	line := ""
	switch o.Kind {
	case pValue:
		// never end the stream inside a value prompt (DESIGN 6.5)
		if o.Reg != "" && (r.Chance(1, 8) || (o.Reg == "#r:w:ip" && r.Bool())) {
			// a code address, now and then off an instruction start (a
			// register-indirect jump then lands inside an instruction)
			if s, ok := p.codeAddress(); ok {
				return emit(Ev{K: "line", S: s})
			}
		}
		if p.walker && (o.Reg == "x5" || o.Reg == "x6") && r.Chance(5, 6) {
			a := uint64(0x20000 + r.Intn(72))
			if p.s != nil && p.s.ld != nil && p.s.ld.Mem != nil && len(p.s.ld.Mem.Blocks) > 0 && r.Chance(1, 3) {
				// just before the end of one of the image's blocks: the access
				// runs over the edge (into a hole, or into the next block)
				b := p.s.ld.Mem.Blocks[r.Intn(len(p.s.ld.Mem.Blocks))]
				a = uint64(b.End()) - uint64(r.Range(1, 7))
			}
			return emit(Ev{K: "line", S: spellNumber(r, new(big.Int).SetUint64(a), false)})
		}
		if r.Chance(1, 6) {
			if s, ok := p.pointerToTheEdge(o); ok {
				return emit(Ev{K: "line", S: s})
			}
		}
		return emit(Ev{K: "line", S: p.valueAnswer(o.Width)})
	case pAck, pUnknown, pContinuation:
		if r.Chance(1, 12) {
			line = pick(r, "x", "quit", "down 1", " ")
		}
		if p.budget <= -30 {
			return emit(Ev{K: "eof"})
		}
		p.budget--
		return emit(Ev{K: "line", S: line})
	}
	// command prompt
	p.budget--
	if p.budget < 0 {
		// wind the session down: quit at every depth, then end of input
		if p.budget < -12 {
			return emit(Ev{K: "eof"})
		}
		return emit(Ev{K: "line", S: "quit"})
	}
	if r.Intn(100) < p.pStream {
		switch r.Intn(6) {
		case 0:
			return emit(Ev{K: "eof"})
		case 1:
			return emit(Ev{K: "readerr"})
		case 2:
			return emit(Ev{K: "overlong"})
		}
	}
	if p.prevMode == "mem" && p.tr.mode == "emu" && r.Bool() {
		p.memReopen = 2
	}
	p.prevMode = p.tr.mode
	switch {
	case p.tr.mode == "emu" && p.memReopen == 2:
		line, p.memReopen = pick(r, "step", "s"), 1
	case p.tr.mode == "emu" && p.memReopen == 1:
		line, p.memReopen = "memory memory", 0
	case p.walker && p.tr.mode == "dis" && p.walkStage < 2:
		line = []string{"entry", "emulate"}[p.walkStage]
		p.walkStage++
	case p.walker && p.tr.mode == "emu" && r.Chance(9, 10):
		line = pick(r, "step", "s", "f")
	case r.Intn(100) < p.pGarbage:
		line = p.garbage()
	case r.Chance(1, 25):
		line = pick(r, "quit", "q")
	case p.tr.mode == "emu":
		line = p.emuCommand()
	case p.tr.mode == "mem":
		line = p.memCommand()
	default:
		line = p.disCommand()
	}
	if r.Intn(100) < p.pStream {
		switch r.Intn(3) {
		case 0:
			if len(line) > 1 {
				return emit(Ev{K: "split", S: line, N: r.Range(1, len(line))})
			}
		case 1:
			return emit(Ev{K: "crlf", S: line})
		default:
			return emit(Ev{K: "glue", S: line, S2: pick(r, "", "down 1", "quit", "0", "step")})
		}
	}
	return emit(Ev{K: "line", S: line})
}

// Generate runs a live session: the simulated user reacts to what the tool
// prints; the emitted trace contains only concrete events.
// genLab draws a prompt-lab trace: prompt widths far beyond a machine word
// and answers around the interesting magnitudes of each.
func genLab(r *core.Rand) *Trace {
	t := &Trace{}
	n := r.Range(1, 6)
	for i := 0; i < n; i++ {
		w := []int{1, 2, 3, 4, 5, 7, 8, 9, 12, 15, 16, 17, 24, 32, 33, 64, 128, 255}[r.Intn(18)]
		t.Lab = append(t.Lab, w)
		for tries := r.Range(1, 3); tries > 0; tries-- {
			var v *big.Int
			switch r.Intn(8) {
			case 0: // a multiple of 2^64, either sign
				v = new(big.Int).Lsh(big.NewInt(int64(r.Range(1, 5))), uint(64*r.Range(1, 3)))
			case 1: // around 2^(8w)
				v = new(big.Int).Lsh(big.NewInt(1), uint(8*w))
				v.Add(v, big.NewInt(int64(r.Range(-2, 2))))
			case 2: // around 2^(8w-1)
				v = new(big.Int).Lsh(big.NewInt(1), uint(8*w-1))
				v.Add(v, big.NewInt(int64(r.Range(-2, 2))))
			case 3:
				v = new(big.Int).SetBytes(r.Bytes(r.Range(1, w+9)))
			case 4:
				v = big.NewInt(int64(r.Intn(3)))
			case 5: // all ones of some width
				v = new(big.Int).Lsh(big.NewInt(1), uint(8*r.Range(1, w+2)))
				v.Sub(v, big.NewInt(1))
			default:
				v = new(big.Int).SetBytes(r.Bytes(r.Range(1, w)))
			}
			if r.Chance(1, 2) {
				v.Neg(v)
			}
			s := spellNumber(r, v, true)
			if r.Chance(1, 6) {
				s = pick(r, "", "1_0", "_", "0x", "abc", "0b2", "--1", "0x_1", "12a", "+5", "0o17", "09", "-", "-0x", "1e3")
			}
			if len(s) < 3000 {
				t.Evs = append(t.Evs, Ev{K: "line", S: s})
			}
		}
	}
	return t
}

func genRegLab(r *core.Rand) *Trace {
	t := &Trace{}
	for n := r.Range(1, 9); n > 0; n-- {
		name := pick(r, "x1", "x10", "x31", "#r:w:ip", "csr768", "f0", "v", "a")
		if r.Chance(1, 3) {
			name = pick(r, "r", "reg", "csr", "x") + strings.Repeat(pick(r, "1", "a", "_"), r.Range(1, 40))
		}
		w := []int{1, 2, 4, 8, 8, 8, 16, 17, 32, 64}[r.Intn(10)]
		t.RegLab = append(t.RegLab, RegSpec{Name: name, W: w, Hex: hex.EncodeToString(r.Bytes(r.Range(1, w)))})
	}
	for k := r.Range(1, 4); k > 0; k-- {
		n := r.Intn(12)
		if r.Chance(1, 6) {
			n = []int{1 << 50, math.MaxInt}[r.Intn(2)]
		}
		t.Evs = append(t.Evs, Ev{K: "render", V: "emu", N: n})
	}
	return t
}

func (e *Engine) Generate(r *core.Rand, prop string, tier string) core.Trace {
	if prop == "C30" && r.Chance(1, 6) {
		return genLab(r)
	}
	if prop == "C24" && r.Chance(1, 10) {
		return genRegLab(r)
	}
	t := &Trace{Desc: genProgram(r)}
	curTrace = t
	ld, err := loadProgram(t.Desc)
	if err != nil {
		return t // executor reports the unloadable program as a probe
	}
	p := &policy{r: r, prop: prop, tr: newTracker(), t: t, nLines: len(freshListing(ld.Code)) + 1}
	p.budget = r.Range(1, 10)
	if r.Chance(1, 3) {
		p.budget = r.Range(10, 40)
	}
	if tier == "thorough" && r.Chance(1, 8) {
		p.budget = r.Range(40, 120)
	}
	// swarm: which fault kinds are enabled and at what rates
	if r.Chance(1, 2) {
		p.pResize = r.Range(5, 40)
	}
	if prop == "C24" {
		p.pResize = r.Range(20, 70)
	}
	if prop == "C22" && r.Chance(1, 2) {
		p.pStream = r.Range(1, 8)
	}
	p.pGarbage = r.Range(0, 12)
	if prop == "C22" {
		p.pGarbage = r.Range(5, 45)
	}
	if r.Chance(1, 5) || (prop == "C22" && r.Chance(1, 5)) {
		p.walker = true
		p.budget, p.pGarbage, p.pStream = r.Range(20, 80), r.Intn(3), 0
	}
	s := &session{ld: ld}
	p.s = s
	s.next = func(o *Obs) Ev {
		p.tr.observe(o)
		return p.choose(o)
	}
	s.onDeliver = p.tr.delivered
	s.run() // a crash here ends generation; Execute will report it
	return t
}
