// Package uisim runs the whole interactive tool (consoleui.UI.Run with the real
// disassembler, emulator and memory-view modes, the real line reader, the real
// terminal-size query and the real renderer) in one process under a simulated
// user, input stream and terminal. The tool's only blocking point is Read on
// the input stream; every Read re-enters the simulator on the same goroutine,
// with the tool quiescent: there the output written since the previous event
// is inspected, terminal events are applied and the next input chunk is
// delivered (C22, C23, C24, C30, C31, C32).
package uisim

import (
	"errors"
	"fmt"
	"io"
	"mltwist/internal/consoleui"
	"mltwist/internal/consoleui/disassemble"
	"mltwist/internal/consoleui/emulate"
	"mltwist/internal/consoleui/internal/linereader"
	"mltwist/internal/consoleui/verifsim/core"
	"mltwist/internal/consoleui/verifsim/elfref"
	"mltwist/internal/consoleui/verifsim/imggen"
	"mltwist/internal/consoleui/verifsim/ptyx"
	"mltwist/internal/deps"
	"mltwist/internal/riscv"
	"mltwist/internal/state"
	"mltwist/internal/state/memory"
	"mltwist/pkg/model"
	"os"
	"regexp"
	"strconv"
	"strings"
	"sync/atomic"
	"syscall"
	"time"
)

const clearSeq = "\033[H\033[2J"
const cols = 120

// process-wide simulated terminal and output capture
var (
	ptyMaster  *os.File
	ptySlaveFd int
	devNullFd  int
	capture    *os.File
	lastBeat   int64 // unix nanos of the last simulator re-entry (watchdog)
	inSession  int32
)

// SetupProcess makes fd 0 of this process a pty slave whose size the
// simulator sets, prepares the stdout capture file and starts the watchdog.
func (e *Engine) SetupProcess() error {
	if ptyMaster != nil {
		return nil
	}
	m, slavePath, err := ptyx.Open()
	if err != nil {
		return fmt.Errorf("pty unavailable: %w", err)
	}
	sfd, err := syscall.Open(slavePath, syscall.O_RDWR|syscall.O_NOCTTY, 0)
	if err != nil {
		return fmt.Errorf("pty slave: %w", err)
	}
	nfd, err := syscall.Open("/dev/null", syscall.O_RDWR, 0)
	if err != nil {
		return err
	}
	if err := syscall.Dup2(sfd, 0); err != nil {
		return fmt.Errorf("dup2: %w", err)
	}
	ptyMaster, ptySlaveFd, devNullFd = m, sfd, nfd
	base := "/dev/shm"
	if st, err := os.Stat(base); err != nil || !st.IsDir() {
		base = os.TempDir()
	}
	f, err := os.CreateTemp(base, "verif-ui-capture-")
	if err != nil {
		return err
	}
	os.Remove(f.Name()) // anonymous: vanishes with the process
	capture = f
	if err := setRows(40); err != nil {
		return fmt.Errorf("TIOCSWINSZ: %w", err)
	}
	core.CurrentTrace = func() (string, interface{}) { return "uisim", curTrace }
	go watchdog()
	return nil
}

// curTrace is the trace being generated or executed (dumped by the watchdog).
var curTrace *Trace

// watchdog: real timer, influences only aborting (distinctive exit status),
// never a verdict. The tool can only be bounded from outside when it loops
// without re-entering the simulator.
func watchdog() {
	for {
		time.Sleep(200 * time.Millisecond)
		if atomic.LoadInt32(&inSession) == 0 {
			continue
		}
		if st, err := capture.Stat(); err == nil && st.Size() > 64<<20 {
			core.OnHang("more than 64 MiB of output were written without re-entering the simulator", "(*session).run")
		}
		if time.Now().UnixNano()-atomic.LoadInt64(&lastBeat) > int64(30*time.Second) {
			core.OnHang("one input event lasted more than 30 s without re-entering the simulator", "(*session).run")
		}
	}
}

func setRows(rows int) error { return ptyx.SetSize(uintptr(ptySlaveFd), rows, cols) }

// takeOutput returns everything the tool wrote since the last call and
// truncates the capture so it only ever holds one event's output.
func takeOutput() string {
	st, err := capture.Stat()
	if err != nil || st.Size() == 0 {
		return ""
	}
	buf := make([]byte, st.Size())
	n, _ := capture.ReadAt(buf, 0)
	capture.Truncate(0)
	capture.Seek(0, 0)
	return string(buf[:n])
}

// ---- prompts ----

type promptKind int

const (
	pCommand promptKind = iota
	pAck                // Press ENTER / error acknowledgement / leaving ...
	pValue              // emulator value prompt
	pUnknown
	pContinuation // mid-line (split chunk) or nothing new printed
)

func (k promptKind) String() string {
	return [...]string{"command", "ack", "value", "unknown", "continuation"}[k]
}

var valueRe = regexp.MustCompile(`Please enter value of (register (\S+)|memory (\S+) at address 0x([0-9a-fA-F]+) \((\d+)\)) \[(\d+) bytes\]: $`)

// Obs is what the simulator sees when the tool blocks in Read.
type Obs struct {
	Out   string
	Kind  promptKind
	Reg   string // value prompt: register key
	Mem   string // value prompt: memory key
	Addr  uint64
	Width int
	Rows  int // terminal height in force for renders since the previous event
}

func classify(out string) (k promptKind, reg, mem string, addr uint64, w int) {
	switch {
	case out == "":
		return pContinuation, "", "", 0, 0
	case strings.HasSuffix(out, "Enter command: "):
		return pCommand, "", "", 0, 0
	case strings.HasSuffix(out, "Press ENTER to continue\n"):
		return pAck, "", "", 0, 0
	}
	if m := valueRe.FindStringSubmatch(out); m != nil {
		w, _ = strconv.Atoi(m[6])
		if m[2] != "" {
			return pValue, m[2], "", 0, w
		}
		addr, _ = strconv.ParseUint(m[4], 16, 64)
		return pValue, "", m[3], addr, w
	}
	lines := strings.Split(strings.TrimSuffix(out, "\n"), "\n")
	last := lines[len(lines)-1]
	if strings.HasSuffix(out, "\n") && (strings.HasPrefix(last, "error: ") || strings.HasPrefix(last, "leaving ")) {
		return pAck, "", "", 0, 0
	}
	return pUnknown, "", "", 0, 0
}

// ---- input events ----

// Ev is one event of a session trace.
type Ev struct {
	K  string `json:"k"` // line split glue crlf overlong eof readerr | resize notty | render
	S  string `json:"s,omitempty"`
	S2 string `json:"s2,omitempty"`
	N  int    `json:"n,omitempty"`
	V  string `json:"v,omitempty"`
}

func isInput(k string) bool {
	switch k {
	case "line", "split", "glue", "crlf", "overlong", "eof", "readerr":
		return true
	}
	return false
}

var errInjectedRead = errors.New("input/output error (injected)")

// session drives one UI.Run().
type session struct {
	ld      *imggen.Loaded
	stat    *state.State  // state of the most recent emulation mode
	emu     consoleui.Mode
	dis     consoleui.Mode
	rows    int
	notty   bool
	queue   [][]byte // remaining parts of a split line
	overlen int
	ended   bool // EOF / error delivered: the scanner never reads again
	reads   int

	// next is the simulated party: called at every Read with what the tool
	// printed; returns the input event to deliver (after applying
	// non-input events itself through the session helpers).
	next func(o *Obs) Ev
	// onDeliver is told about every delivered input event with its context.
	onDeliver func(o *Obs, ev Ev)
}

type simReader struct {
	s       *session
	pending []byte
}

func (r *simReader) Read(p []byte) (int, error) {
	if len(r.pending) == 0 {
		b, err := r.s.onRead()
		if err != nil {
			return 0, err
		}
		r.pending = b
	}
	n := copy(p, r.pending)
	r.pending = r.pending[n:]
	return n, nil
}

func (s *session) restoreTty() {
	if s.notty {
		syscall.Dup2(ptySlaveFd, 0)
		s.notty = false
	}
}

func (s *session) onRead() ([]byte, error) {
	atomic.StoreInt64(&lastBeat, time.Now().UnixNano())
	s.reads++
	if s.reads > 4000 {
		// per-run event cap
		s.ended = true
		return nil, io.EOF
	}
	if s.overlen > 0 {
		n := 4096
		if n > s.overlen {
			n = s.overlen
		}
		s.overlen -= n
		return []byte(strings.Repeat("a", n)), nil
	}
	if len(s.queue) > 0 {
		b := s.queue[0]
		s.queue = s.queue[1:]
		return b, nil
	}
	out := takeOutput()
	o := &Obs{Out: out, Rows: s.rows}
	o.Kind, o.Reg, o.Mem, o.Addr, o.Width = classify(out)
	s.restoreTty()
	ev := s.next(o)
	if s.onDeliver != nil {
		s.onDeliver(o, ev)
	}
	switch ev.K {
	case "line":
		return []byte(ev.S + "\n"), nil
	case "crlf":
		return []byte(ev.S + "\r\n"), nil
	case "split":
		b := []byte(ev.S + "\n")
		n := ev.N
		if n < 1 || n >= len(b) {
			return b, nil
		}
		s.queue = append(s.queue, b[n:])
		return b[:n], nil
	case "glue":
		return []byte(ev.S + "\n" + ev.S2 + "\n"), nil
	case "overlong":
		s.ended = true // bufio.Scanner gives up for good on an over-long token
		s.overlen = 70000 - 4096
		return []byte(strings.Repeat("a", 4096)), nil
	case "readerr":
		s.ended = true
		return nil, errInjectedRead
	default: // eof
		s.ended = true
		return nil, io.EOF
	}
}

// applyTerminal applies a non-input event; called by next() implementations.
func (s *session) applyTerminal(ev Ev) {
	switch ev.K {
	case "resize":
		if ev.N >= 1 && ev.N <= 500 {
			setRows(ev.N)
			s.rows = ev.N
		}
	case "notty":
		syscall.Dup2(devNullFd, 0)
		s.notty = true
	}
}

type runResult struct {
	err      error
	panicked bool
	fn, msg  string
	tail     string // output after the last Read
}

// run executes one whole session on the loaded program.
func (s *session) run() runResult {
	atomic.StoreInt64(&lastBeat, time.Now().UnixNano())
	atomic.StoreInt32(&inSession, 1)
	defer atomic.StoreInt32(&inSession, 0)
	old := os.Stdout
	takeOutput()
	os.Stdout = capture
	defer func() { os.Stdout = old }()
	defer s.restoreTty()
	s.rows = 40
	setRows(40)

	emulF := func(p *deps.Code, ip model.Addr) (consoleui.Mode, error) {
		m := memory.NewOverlay(s.ld.ByteMem, memory.NewSparse())
		stat := &state.State{Regs: state.NewRegMap(), Mems: memory.MemMap{riscv.MemoryKey: m}}
		emul, err := emulate.New(p, ip, stat)
		if err != nil {
			return nil, fmt.Errorf("cannot create emulation mode: %w", err)
		}
		s.stat, s.emu = stat, emul
		return emul, nil
	}
	var res runResult
	res.fn, res.msg, res.panicked = core.Guard(func() {
		s.dis = disassemble.New(s.ld.Code, emulF)
		ui, err := consoleui.New(s.dis)
		if err != nil {
			res.err = err
			return
		}
		linereader.VerifSetInput(&simReader{s: s})
		res.err = ui.Run()
	})
	res.tail = takeOutput()
	return res
}

func loadProgram(d *elfref.Desc) (*imggen.Loaded, error) {
	var ld *imggen.Loaded
	var err error
	if _, msg, p := core.Guard(func() { ld, err = imggen.Load(d) }); p {
		return nil, fmt.Errorf("loading panicked: %s", msg)
	}
	return ld, err
}
