package uisim

import (
	"bytes"
	"fmt"
	"os"
	osexec "os/exec"
	"path/filepath"
	"time"

	"mltwist/internal/consoleui/verifsim/core"
	"mltwist/internal/consoleui/verifsim/elfref"
	"mltwist/internal/consoleui/verifsim/ptyx"
)

// Transcript validates the stub part of this engine - the replica of
// cmd/mltwist's run()/runIU() wiring that the in-process sessions use, the
// injected line reader and the output capture - against the real binary:
// the input lines of n generated sessions (stream and terminal faults
// removed, because their timing cannot be controlled in another process) are
// fed to the in-process session and, byte for byte, to build/mltwist on a
// raw pty of the same size; both standard outputs must be equal and the
// child must exit with status 0. It decides no property; a mismatch means
// the harness misrepresents the program and is reported as harness trouble.
func Transcript(seed uint64, n int) int {
	e := &Engine{}
	if err := e.SetupProcess(); err != nil {
		fmt.Println("HARNESS:", err)
		return 2
	}
	bin := filepath.Join(core.VerifDir(), "build", "mltwist")
	if _, err := os.Stat(bin); err != nil {
		fmt.Println("HARNESS: real binary not built:", bin)
		return 2
	}
	props := e.Props()
	compared, skipped, lines, outBytes := 0, 0, 0, 0
	for i := 0; i < n; i++ {
		prop := props[i%len(props)]
		r := core.NewRand(core.RunSeed(seed, "uisim-transcript", prop, i))
		t := e.Generate(r, prop, "quick").(*Trace)
		if t.Desc == nil { // a prompt-lab trace: no session to compare
			skipped++
			continue
		}
		var in []string
		for _, ev := range t.Evs {
			switch ev.K {
			case "line", "crlf", "split":
				in = append(in, ev.S)
			case "glue":
				in = append(in, ev.S, ev.S2)
			}
		}
		ld, err := loadProgram(t.Desc)
		if err != nil {
			skipped++
			continue
		}
		// in-process side
		var fed bytes.Buffer
		var out bytes.Buffer
		s := &session{ld: ld}
		k, tail, gaveUp := 0, 0, false
		s.next = func(o *Obs) Ev {
			out.WriteString(o.Out)
			ev := Ev{K: "line"}
			switch {
			case k < len(in):
				ev.S = in[k]
				k++
			case o.Kind == pValue:
				ev.S = "0"
			case tail > 12:
				gaveUp = true
				return Ev{K: "eof"}
			case o.Kind == pCommand:
				tail++
				ev.S = "quit"
			default:
				tail++
			}
			fed.WriteString(ev.S + "\n")
			return ev
		}
		res := s.run()
		out.WriteString(res.tail)
		if res.panicked || res.err != nil || gaveUp {
			skipped++ // crashes and errors are the properties' business, not this self-test's
			continue
		}
		// real binary
		so, status, err := realRun(bin, elfref.Build(t.Desc), fed.Bytes())
		if err != nil {
			fmt.Printf("HARNESS: transcript run %d (seed %d): %v\n", i, seed, err)
			return 2
		}
		compared++
		lines += bytes.Count(fed.Bytes(), []byte("\n"))
		outBytes += out.Len()
		if status != 0 || !bytes.Equal(so, out.Bytes()) {
			d := 0
			a, b := out.Bytes(), so
			for d < len(a) && d < len(b) && a[d] == b[d] {
				d++
			}
			lo := d - 200
			if lo < 0 {
				lo = 0
			}
			hi := func(x []byte) int {
				if d+200 < len(x) {
					return d + 200
				}
				return len(x)
			}
			fmt.Printf("TRANSCRIPT MISMATCH run=%d seed=%d prop=%s child_status=%d in_process_len=%d child_len=%d first_difference_at=%d\n", i, seed, prop, status, len(a), len(b), d)
			fmt.Printf("--- in-process around the difference:\n%q\n--- real binary:\n%q\n--- input:\n%q\n", a[lo:hi(a)], b[lo:hi(b)], fed.String())
			return 2
		}
	}
	fmt.Printf("transcript: sessions=%d compared=%d skipped=%d input_lines=%d output_bytes=%d identical=%d\n", n, compared, skipped, lines, outBytes, compared)
	if compared == 0 {
		fmt.Println("HARNESS: nothing compared")
		return 2
	}
	return 0
}

func realRun(bin string, image, input []byte) ([]byte, int, error) {
	base := "/dev/shm"
	if st, err := os.Stat(base); err != nil || !st.IsDir() {
		base = os.TempDir()
	}
	path := filepath.Join(base, fmt.Sprintf("verif-transcript-%d", os.Getpid()))
	if err := os.WriteFile(path, image, 0o644); err != nil {
		return nil, 0, err
	}
	defer os.Remove(path)
	m, slavePath, err := ptyx.Open()
	if err != nil {
		return nil, 0, err
	}
	defer m.Close()
	slave, err := os.OpenFile(slavePath, os.O_RDWR, 0)
	if err != nil {
		return nil, 0, err
	}
	defer slave.Close()
	if err := ptyx.MakeRaw(slave.Fd()); err != nil {
		return nil, 0, fmt.Errorf("raw mode: %w", err)
	}
	if err := ptyx.SetSize(slave.Fd(), 40, cols); err != nil {
		return nil, 0, err
	}
	cmd := osexec.Command(bin, path)
	cmd.Stdin = slave
	var so, se bytes.Buffer
	cmd.Stdout = &so
	cmd.Stderr = &se
	if err := cmd.Start(); err != nil {
		return nil, 0, err
	}
	go func() {
		// the pty buffers a few KiB; feed it as the child consumes
		for len(input) > 0 {
			n, err := m.Write(input)
			if err != nil {
				return
			}
			input = input[n:]
		}
	}()
	done := make(chan error, 1)
	go func() { done <- cmd.Wait() }()
	select {
	case werr := <-done:
		status := 0
		if ee, ok := werr.(*osexec.ExitError); ok {
			status = ee.ExitCode()
		} else if werr != nil {
			return nil, 0, werr
		}
		if se.Len() > 0 && status == 0 {
			return nil, 0, fmt.Errorf("child wrote to stderr: %q", se.String())
		}
		return so.Bytes(), status, nil
	case <-time.After(30 * time.Second):
		cmd.Process.Kill()
		<-done
		return so.Bytes(), 0, fmt.Errorf("child did not exit within 30 s; stdout tail %q", tailStr(so.String(), 300))
	}
}
