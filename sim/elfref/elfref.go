// Package elfref is an independent reader and writer of ELF32/ELF64 LE/BE
// headers, program headers and section headers over a byte image. It is the
// reference for what the loader should extract from the bytes delivered, and
// the builder of well-formed images for the generators. It does not use
// debug/elf.
package elfref

import (
	"encoding/binary"
	"fmt"
)

const (
	PTLoad       = 1
	SHTProgbits  = 1
	SHTStrtab    = 3
	SHTNobits    = 8
	SHFWrite     = 1
	SHFAlloc     = 2
	SHFExec      = 4
	SHFCompressed = 0x800
)

type Prog struct {
	Type   uint32 `json:"type"`
	Flags  uint32 `json:"flags"`
	Off    uint64 `json:"off"`
	Vaddr  uint64 `json:"vaddr"`
	Filesz uint64 `json:"filesz"`
	Memsz  uint64 `json:"memsz"`
	// PaddrDelta: the physical address written to the header is Vaddr plus
	// this (0 = the customary paddr == vaddr). Loaders map by Vaddr.
	PaddrDelta uint64 `json:"paddr_delta,omitempty"`
}

type Sec struct {
	Name  string `json:"name"`
	Type  uint32 `json:"type"`
	Flags uint64 `json:"flags"`
	Addr  uint64 `json:"addr"`
	Off   uint64 `json:"off"`
	Size  uint64 `json:"size"`
}

// File is what the headers of an image say.
type File struct {
	Class   int // 1 = 32 bit, 2 = 64 bit
	Data    int // 1 = LE, 2 = BE
	Type    uint16
	Machine uint16
	Entry   uint64
	Progs   []Prog
	Secs    []Sec
	// Unjudgeable is set when the image uses a feature the reference does
	// not model (extended numbering, compressed sections, ...).
	Unjudgeable string
}

func order(data int) binary.ByteOrder {
	if data == 2 {
		return binary.BigEndian
	}
	return binary.LittleEndian
}

// Parse reads the headers of img. An error means the reference cannot make
// sense of the image (then nothing is expected of a loader but not crashing).
func Parse(img []byte) (*File, error) {
	if len(img) < 16 || img[0] != 0x7f || img[1] != 'E' || img[2] != 'L' || img[3] != 'F' {
		return nil, fmt.Errorf("no ELF magic")
	}
	f := &File{Class: int(img[4]), Data: int(img[5])}
	if f.Class != 1 && f.Class != 2 {
		return nil, fmt.Errorf("bad class")
	}
	if f.Data != 1 && f.Data != 2 {
		return nil, fmt.Errorf("bad data encoding")
	}
	bo := order(f.Data)
	var phoff, shoff uint64
	var phentsize, phnum, shentsize, shnum, shstrndx int
	if f.Class == 2 {
		if len(img) < 64 {
			return nil, fmt.Errorf("short header")
		}
		f.Type, f.Machine = bo.Uint16(img[16:]), bo.Uint16(img[18:])
		f.Entry = bo.Uint64(img[24:])
		phoff, shoff = bo.Uint64(img[32:]), bo.Uint64(img[40:])
		phentsize, phnum = int(bo.Uint16(img[54:])), int(bo.Uint16(img[56:]))
		shentsize, shnum, shstrndx = int(bo.Uint16(img[58:])), int(bo.Uint16(img[60:])), int(bo.Uint16(img[62:]))
	} else {
		if len(img) < 52 {
			return nil, fmt.Errorf("short header")
		}
		f.Type, f.Machine = bo.Uint16(img[16:]), bo.Uint16(img[18:])
		f.Entry = uint64(bo.Uint32(img[24:]))
		phoff, shoff = uint64(bo.Uint32(img[28:])), uint64(bo.Uint32(img[32:]))
		phentsize, phnum = int(bo.Uint16(img[42:])), int(bo.Uint16(img[44:]))
		shentsize, shnum, shstrndx = int(bo.Uint16(img[46:])), int(bo.Uint16(img[48:])), int(bo.Uint16(img[50:]))
	}
	if phnum == 0xffff || shstrndx == 0xffff || (shnum == 0 && shoff != 0) || shnum >= 0xff00 {
		f.Unjudgeable = "extended numbering"
	}
	wantPh, wantSh := 56, 64
	if f.Class == 1 {
		wantPh, wantSh = 32, 40
	}
	if phnum > 0 && phentsize != wantPh {
		return nil, fmt.Errorf("bad phentsize")
	}
	if shnum > 0 && shentsize != wantSh {
		return nil, fmt.Errorf("bad shentsize")
	}
	for i := 0; i < phnum; i++ {
		o := phoff + uint64(i*phentsize)
		if o+uint64(phentsize) > uint64(len(img)) || o+uint64(phentsize) < o {
			return nil, fmt.Errorf("program header outside file")
		}
		b := img[o:]
		var p Prog
		if f.Class == 2 {
			p = Prog{Type: bo.Uint32(b[0:]), Flags: bo.Uint32(b[4:]), Off: bo.Uint64(b[8:]), Vaddr: bo.Uint64(b[16:]),
				Filesz: bo.Uint64(b[32:]), Memsz: bo.Uint64(b[40:])}
		} else {
			p = Prog{Type: bo.Uint32(b[0:]), Off: uint64(bo.Uint32(b[4:])), Vaddr: uint64(bo.Uint32(b[8:])),
				Filesz: uint64(bo.Uint32(b[16:])), Memsz: uint64(bo.Uint32(b[20:])), Flags: bo.Uint32(b[24:])}
		}
		f.Progs = append(f.Progs, p)
	}
	for i := 0; i < shnum; i++ {
		o := shoff + uint64(i*shentsize)
		if o+uint64(shentsize) > uint64(len(img)) || o+uint64(shentsize) < o {
			return nil, fmt.Errorf("section header outside file")
		}
		b := img[o:]
		var s Sec
		if f.Class == 2 {
			s = Sec{Type: bo.Uint32(b[4:]), Flags: bo.Uint64(b[8:]), Addr: bo.Uint64(b[16:]), Off: bo.Uint64(b[24:]), Size: bo.Uint64(b[32:])}
		} else {
			s = Sec{Type: bo.Uint32(b[4:]), Flags: uint64(bo.Uint32(b[8:])), Addr: uint64(bo.Uint32(b[12:])), Off: uint64(bo.Uint32(b[16:])), Size: uint64(bo.Uint32(b[20:]))}
		}
		if s.Flags&SHFCompressed != 0 {
			f.Unjudgeable = "compressed section"
		}
		f.Secs = append(f.Secs, s)
	}
	return f, nil
}

// Block is an expected memory block.
type Block struct {
	Addr  uint64
	Bytes []byte
}

// Segments returns the loadable segments of img per the headers: the
// available file bytes then zeros up to the in-memory size. bad is non-empty
// when the headers themselves are contradictory (memsz < filesz).
func (f *File) Segments(img []byte) (blocks []Block, bad string) {
	for _, p := range f.Progs {
		if p.Type != PTLoad {
			continue
		}
		if p.Memsz < p.Filesz {
			return nil, "memsz<filesz"
		}
		var data []byte
		if p.Off < uint64(len(img)) {
			end := p.Off + p.Filesz
			if end > uint64(len(img)) || end < p.Off {
				end = uint64(len(img))
			}
			data = append(data, img[p.Off:end]...)
		}
		if uint64(len(data)) < p.Memsz {
			if p.Memsz > 1<<26 {
				return nil, "huge"
			}
			data = append(data, make([]byte, p.Memsz-uint64(len(data)))...)
		}
		blocks = append(blocks, Block{p.Vaddr, data})
	}
	return blocks, ""
}

// CodeSections returns the non-empty, executable, address-bearing PROGBITS
// sections. bad is non-empty when one of them lies (partly) outside the file.
func (f *File) CodeSections(img []byte) (blocks []Block, bad string) {
	for _, s := range f.Secs {
		if s.Type != SHTProgbits || s.Size == 0 || s.Addr == 0 || s.Flags&SHFExec == 0 {
			continue
		}
		end := s.Off + s.Size
		if end > uint64(len(img)) || end < s.Off {
			return nil, "outside-file"
		}
		blocks = append(blocks, Block{s.Addr, append([]byte(nil), img[s.Off:end]...)})
	}
	return blocks, ""
}

// Wraps reports whether a non-empty block reaches the end of the address
// space (its exclusive end is 2^64 or beyond). What a loader should do with
// such a block is not stated anywhere; it is not judged beyond not crashing.
func Wraps(bs []Block) bool {
	for _, b := range bs {
		// A block ending exactly at 2^64 does not wrap: every byte of it has
		// an address, so a loader that accepts it must serve it faithfully
		// (rejecting it is fine as well).
		if e := b.Addr + uint64(len(b.Bytes)); len(b.Bytes) > 0 && e <= b.Addr && e != 0 {
			return true
		}
	}
	return false
}

// Overlap reports whether two non-empty blocks overlap.
func Overlap(bs []Block) bool {
	for i := range bs {
		for j := i + 1; j < len(bs); j++ {
			a, b := bs[i], bs[j]
			if len(a.Bytes) == 0 || len(b.Bytes) == 0 {
				continue
			}
			ae, be := a.Addr+uint64(len(a.Bytes)), b.Addr+uint64(len(b.Bytes))
			if (ae != 0 && ae < a.Addr) || (be != 0 && be < b.Addr) { // wraps beyond 2^64
				return true
			}
			// an end of 0 stands for 2^64
			if (be == 0 || a.Addr < be) && (ae == 0 || b.Addr < ae) {
				return true
			}
		}
	}
	return false
}

// ---- builder ----

// Blob is a piece of file content.
type Blob struct {
	Off uint64 `json:"off"`
	Hex string `json:"hex"`
}

// Desc describes a whole image to build.
type Desc struct {
	Class    int    `json:"class"`
	Data     int    `json:"data"`
	Type     uint16 `json:"type"`
	Machine  uint16 `json:"machine"`
	Entry    uint64 `json:"entry"`
	Phoff    uint64 `json:"phoff"`
	Shoff    uint64 `json:"shoff"`
	StrOff   uint64 `json:"stroff"` // where the section name table goes
	Progs    []Prog `json:"progs"`
	Secs     []Sec  `json:"secs"` // without the null section and the name table (added by Build)
	Blobs    []Blob `json:"blobs"`
	Size     int    `json:"size"`
	// NoNull: the section header table does not start with the customary
	// all-zero entry; its first entry is the first of Secs.
	NoNull bool `json:"no_null,omitempty"`
}

func put(img *[]byte, off uint64, b []byte) {
	if off > 1<<20 {
		return
	}
	need := int(off) + len(b)
	if need > len(*img) {
		*img = append(*img, make([]byte, need-len(*img))...)
	}
	copy((*img)[off:], b)
}

func unhex(s string) []byte {
	out := make([]byte, len(s)/2)
	for i := range out {
		var v byte
		for k := 0; k < 2; k++ {
			c := s[2*i+k]
			switch {
			case c >= '0' && c <= '9':
				v = v<<4 | (c - '0')
			case c >= 'a' && c <= 'f':
				v = v<<4 | (c - 'a' + 10)
			}
		}
		out[i] = v
	}
	return out
}

// Build renders the image.
func Build(d *Desc) []byte {
	bo := order(d.Data)
	size := d.Size
	if size < 64 {
		size = 64
	}
	if size > 1<<20 {
		size = 1 << 20
	}
	img := make([]byte, size)
	for _, b := range d.Blobs {
		put(&img, b.Off, unhex(b.Hex))
	}
	// section name table
	names := []byte{0}
	nameOff := make([]uint32, len(d.Secs))
	for i, s := range d.Secs {
		nameOff[i] = uint32(len(names))
		names = append(names, []byte(s.Name)...)
		names = append(names, 0)
	}
	strName := uint32(len(names))
	names = append(names, []byte(".shstrtab\x00")...)
	put(&img, d.StrOff, names)

	secs := []Sec{{}}
	noffs := []uint32{0}
	if d.NoNull {
		secs, noffs = nil, nil
	}
	secs = append(secs, d.Secs...)
	secs = append(secs, Sec{Name: ".shstrtab", Type: SHTStrtab, Off: d.StrOff, Size: uint64(len(names))})
	noffs = append(noffs, nameOff...)
	noffs = append(noffs, strName)

	is64 := d.Class == 2
	phent, shent, ehsize := 56, 64, 64
	if !is64 {
		phent, shent, ehsize = 32, 40, 52
	}
	for i, p := range d.Progs {
		b := make([]byte, phent)
		if is64 {
			bo.PutUint32(b[0:], p.Type)
			bo.PutUint32(b[4:], p.Flags)
			bo.PutUint64(b[8:], p.Off)
			bo.PutUint64(b[16:], p.Vaddr)
			bo.PutUint64(b[24:], p.Vaddr+p.PaddrDelta)
			bo.PutUint64(b[32:], p.Filesz)
			bo.PutUint64(b[40:], p.Memsz)
			bo.PutUint64(b[48:], 4)
		} else {
			bo.PutUint32(b[0:], p.Type)
			bo.PutUint32(b[4:], uint32(p.Off))
			bo.PutUint32(b[8:], uint32(p.Vaddr))
			bo.PutUint32(b[12:], uint32(p.Vaddr+p.PaddrDelta))
			bo.PutUint32(b[16:], uint32(p.Filesz))
			bo.PutUint32(b[20:], uint32(p.Memsz))
			bo.PutUint32(b[24:], p.Flags)
			bo.PutUint32(b[28:], 4)
		}
		put(&img, d.Phoff+uint64(i*phent), b)
	}
	for i, s := range secs {
		b := make([]byte, shent)
		if is64 {
			bo.PutUint32(b[0:], noffs[i])
			bo.PutUint32(b[4:], s.Type)
			bo.PutUint64(b[8:], s.Flags)
			bo.PutUint64(b[16:], s.Addr)
			bo.PutUint64(b[24:], s.Off)
			bo.PutUint64(b[32:], s.Size)
			bo.PutUint64(b[48:], 1)
		} else {
			bo.PutUint32(b[0:], noffs[i])
			bo.PutUint32(b[4:], s.Type)
			bo.PutUint32(b[8:], uint32(s.Flags))
			bo.PutUint32(b[12:], uint32(s.Addr))
			bo.PutUint32(b[16:], uint32(s.Off))
			bo.PutUint32(b[20:], uint32(s.Size))
			bo.PutUint32(b[32:], 1)
		}
		put(&img, d.Shoff+uint64(i*shent), b)
	}
	h := make([]byte, ehsize)
	copy(h, []byte{0x7f, 'E', 'L', 'F', byte(d.Class), byte(d.Data), 1, 0})
	bo.PutUint16(h[16:], d.Type)
	bo.PutUint16(h[18:], d.Machine)
	bo.PutUint32(h[20:], 1)
	if is64 {
		bo.PutUint64(h[24:], d.Entry)
		bo.PutUint64(h[32:], d.Phoff)
		bo.PutUint64(h[40:], d.Shoff)
		bo.PutUint16(h[52:], uint16(ehsize))
		bo.PutUint16(h[54:], uint16(phent))
		bo.PutUint16(h[56:], uint16(len(d.Progs)))
		bo.PutUint16(h[58:], uint16(shent))
		bo.PutUint16(h[60:], uint16(len(secs)))
		bo.PutUint16(h[62:], uint16(len(secs)-1))
	} else {
		bo.PutUint32(h[24:], uint32(d.Entry))
		bo.PutUint32(h[28:], uint32(d.Phoff))
		bo.PutUint32(h[32:], uint32(d.Shoff))
		bo.PutUint16(h[40:], uint16(ehsize))
		bo.PutUint16(h[42:], uint16(phent))
		bo.PutUint16(h[44:], uint16(len(d.Progs)))
		bo.PutUint16(h[46:], uint16(shent))
		bo.PutUint16(h[48:], uint16(len(secs)))
		bo.PutUint16(h[50:], uint16(len(secs)-1))
	}
	if len(d.Progs) == 0 {
		// no program header table
		if is64 {
			bo.PutUint64(h[32:], 0)
		} else {
			bo.PutUint32(h[28:], 0)
		}
	}
	put(&img, 0, h)
	return img
}
