package memsim

import (
	"bytes"
	"encoding/hex"
	"fmt"
	"mltwist/internal/consoleui/verifsim/bytemem"
	"mltwist/internal/consoleui/verifsim/core"
	"mltwist/internal/consoleui/verifsim/refeval"
	"mltwist/internal/state"
	"mltwist/internal/state/interval"
	"mltwist/internal/state/memory"
	"mltwist/pkg/expr"
	"mltwist/pkg/model"
	"strings"
)

type valEntry struct {
	ex expr.Expr
	w  int
}

type snap struct {
	label string
	ex    expr.Expr
	text  string
}

// mapSnap: an interval map the memory returned (Missing / Blocks), with what
// it said when it was returned.
type mapSnap struct {
	label string
	live  interval.Map[model.Addr]
	text  string
}

type sliceSnap struct {
	label string
	live  []byte
	copy  []byte
}

// harness = one memory object under test + its reference model + everything
// that crossed the interface (for the aliasing oracle).
type harness struct {
	ctx   *core.Ctx
	prop  string
	mem   memory.Memory
	mod   *bytemem.Mem
	vals  []valEntry
	built []expr.Expr // trace values as real expressions
	vset  []refeval.Valuation
	snaps []snap
	ssnap []sliceSnap
	loaded []expr.Expr // expressions returned by the history's loads, in order
	msnap  []mapSnap   // interval maps returned by explicit Missing / Blocks events

	sawOverlap   bool
	readAfterOvl bool
}

type initBlock struct {
	begin model.Addr
	bs    []byte
}

func (b initBlock) Begin() model.Addr { return b.begin }
func (b initBlock) Bytes() []byte     { return b.bs }

func (h *harness) addVal(ex expr.Expr, w int) int {
	h.vals = append(h.vals, valEntry{ex, w})
	return len(h.vals) - 1
}

func (h *harness) remember(label string, ex expr.Expr) {
	if ex == nil {
		return
	}
	h.snaps = append(h.snaps, snap{label, ex, refeval.Render(ex)})
}

// expected bytes of [addr, addr+w) under valuation v; cache per call.
func (h *harness) expected(m *bytemem.Mem, addr uint64, w int, v refeval.Valuation) []byte {
	out := make([]byte, w)
	cache := map[int][]byte{}
	for i := 0; i < w; i++ {
		c := m.Cells[addr+uint64(i)]
		if c.Conc {
			out[i] = c.B
			continue
		}
		bs, ok := cache[c.Val]
		if !ok {
			bs = refeval.EvalBytes(h.vals[c.Val].ex, v, h.vals[c.Val].w)
			cache[c.Val] = bs
		}
		out[i] = bs[c.Idx]
	}
	return out
}

func rangesOf(m interval.Map[model.Addr]) []bytemem.Range {
	var out []bytemem.Range
	for _, iv := range m.Intervals() {
		if iv.Begin() == iv.End() {
			// An empty interval contributes no address: the reported set
			// is still exact (lenient reading, DESIGN 6.6).
			continue
		}
		if n := len(out); n > 0 && out[n-1].E == uint64(iv.Begin()) {
			// Adjacent intervals denote the same address set as their
			// merge (lenient reading, DESIGN 6.6); order and
			// disjointness are still required.
			out[n-1].E = uint64(iv.End())
			continue
		}
		out = append(out, bytemem.Range{B: uint64(iv.Begin()), E: uint64(iv.End())})
	}
	return out
}

func sameRanges(a, b []bytemem.Range) bool {
	if len(a) != len(b) {
		return false
	}
	for i := range a {
		if a[i] != b[i] {
			return false
		}
	}
	return true
}

func fmtRanges(rs []bytemem.Range) string {
	var sb strings.Builder
	sb.WriteByte('[')
	for i, r := range rs {
		if i > 0 {
			sb.WriteByte(' ')
		}
		fmt.Fprintf(&sb, "%#x-%#x", r.B, r.E)
	}
	sb.WriteByte(']')
	return sb.String()
}

// geometry classifies a load range against the model's stored values: does it
// start / end inside a stored value, how many stored pieces does it span.
func (h *harness) geometry(m *bytemem.Mem, addr uint64, w int) string {
	if !m.HasAll(addr, w) {
		return "holes"
	}
	cont := func(a, b bytemem.Cell) bool { // b continues a
		return !a.Conc && !b.Conc && a.Val == b.Val && a.Idx+1 == b.Idx
	}
	head, tail := "head-whole", "tail-whole"
	first := m.Cells[addr]
	if addr > 0 {
		if p, ok := m.Cells[addr-1]; ok && cont(p, first) {
			head = "head-cut"
		}
	}
	last := m.Cells[addr+uint64(w)-1]
	if n, ok := m.Cells[addr+uint64(w)]; ok && cont(last, n) {
		tail = "tail-cut"
	}
	spans := 1
	conc := first.Conc
	for i := 1; i < w; i++ {
		a, b := m.Cells[addr+uint64(i)-1], m.Cells[addr+uint64(i)]
		if a.Conc && b.Conc {
			continue
		}
		if !cont(a, b) {
			spans++
		}
		if b.Conc {
			conc = true
		}
	}
	s := "spans=1"
	if spans == 2 {
		s = "spans=2"
	} else if spans > 2 {
		s = "spans>=3"
	}
	_ = conc
	return head + "/" + tail + "/" + s
}

// checkLoad performs mem.Load and judges it against model m. Returns false if
// the run must stop.
func (h *harness) checkLoad(ev int, oracle string, mem memory.Memory, m *bytemem.Mem, addr uint64, w int, remember bool) bool {
	var ex expr.Expr
	var ok bool
	fn, msg, panicked := core.Guard(func() { ex, ok = mem.Load(model.Addr(addr), expr.Width(w)) })
	geo := h.geometry(m, addr, w)
	if panicked {
		return !h.ctx.Fail(h.prop, "no-crash", "panic/"+fn+"/load/"+geo, ev, "Load(%#x,%d) panicked: %s", addr, w, msg)
	}
	want := m.HasAll(addr, w)
	h.ctx.Note("%s %#x %d -> %v", oracle, addr, w, ok)
	if ok != want {
		return !h.ctx.Fail(h.prop, oracle, oracle+"/ok-mismatch/"+geo, ev,
			"Load(%#x,%d) ok=%v but model says every-byte-written=%v (missing %s)", addr, w, ok, want, fmtRanges(m.Missing(addr, w)))
	}
	if !ok {
		return true
	}
	if ex == nil {
		return !h.ctx.Fail(h.prop, oracle, oracle+"/nil-expr", ev, "Load(%#x,%d) returned ok with nil expression", addr, w)
	}
	if remember {
		h.remember(fmt.Sprintf("returned by Load(%#x,%d) at event %d", addr, w, ev), ex)
		if oracle == "load" {
			h.loaded = append(h.loaded, ex)
		}
	}
	if int(ex.Width()) != w {
		return !h.ctx.Fail(h.prop, oracle, oracle+"/width/"+geo, ev,
			"Load(%#x,%d) returned an expression of width %d: %s", addr, w, ex.Width(), refeval.Render(ex))
	}
	for vi, v := range h.vset {
		var got []byte
		fn, msg, panicked := core.Guard(func() { got = refeval.EvalBytes(ex, v, w) })
		if panicked {
			return !h.ctx.Fail(h.prop, oracle, oracle+"/uneval/"+fn, ev, "returned expression cannot be evaluated: %s", msg)
		}
		exp := h.expected(m, addr, w, v)
		if !bytes.Equal(got, exp) {
			return !h.ctx.Fail(h.prop, oracle, oracle+"/value/"+geo, ev,
				"Load(%#x,%d) under valuation %d = %x, model (little-endian bytes most recently written) = %x; expr %s",
				addr, w, vi, got, exp, refeval.Render(ex))
		}
	}
	h.ctx.Note("%s value ok", oracle)
	return true
}

func (h *harness) checkMissing(ev int, oracle string, mem memory.Memory, m *bytemem.Mem, addr uint64, w int) bool {
	var got interval.Map[model.Addr]
	fn, msg, panicked := core.Guard(func() { got = mem.Missing(model.Addr(addr), expr.Width(w)) })
	if panicked {
		return !h.ctx.Fail(h.prop, "no-crash", "panic/"+fn+"/missing", ev, "Missing(%#x,%d) panicked: %s", addr, w, msg)
	}
	want := m.Missing(addr, w)
	g := rangesOf(got)
	if oracle == "missing" && len(h.msnap) < 24 {
		h.msnap = append(h.msnap, mapSnap{fmt.Sprintf("returned by Missing(%#x,%d) at event %d", addr, w, ev), got, fmtRanges(g)})
	}
	h.ctx.Note("%s %#x %d -> %s", oracle, addr, w, fmtRanges(g))
	if !sameRanges(g, want) {
		cls := "other"
		switch {
		case len(g) < len(want):
			cls = "too-few"
		case len(g) > len(want):
			cls = "too-many"
		}
		return !h.ctx.Fail(h.prop, oracle, oracle+"/"+cls, ev, "Missing(%#x,%d) = %s, model = %s", addr, w, fmtRanges(g), fmtRanges(want))
	}
	return true
}

func (h *harness) checkBlocks(ev int, oracle string, mem memory.Memory, m *bytemem.Mem) bool {
	var got interval.Map[model.Addr]
	fn, msg, panicked := core.Guard(func() { got = mem.Blocks() })
	if panicked {
		return !h.ctx.Fail(h.prop, "no-crash", "panic/"+fn+"/blocks", ev, "Blocks() panicked: %s", msg)
	}
	want := m.Blocks()
	g := rangesOf(got)
	if oracle == "blocks" && len(h.msnap) < 24 {
		h.msnap = append(h.msnap, mapSnap{fmt.Sprintf("returned by Blocks() at event %d", ev), got, fmtRanges(g)})
	}
	h.ctx.Note("%s -> %s", oracle, fmtRanges(g))
	if !sameRanges(g, want) {
		return !h.ctx.Fail(h.prop, oracle, oracle+"/mismatch", ev, "Blocks() = %s, model = %s", fmtRanges(g), fmtRanges(want))
	}
	// Blocks are documented as the *continuous* intervals the memory
	// stores: two reported blocks that touch are one continuous interval
	// reported in pieces (Missing makes no such promise, see rangesOf).
	var prev *interval.Interval[model.Addr]
	for _, iv := range got.Intervals() {
		iv := iv
		if iv.Begin() == iv.End() {
			continue
		}
		if prev != nil && prev.End() == iv.Begin() {
			return !h.ctx.Fail(h.prop, oracle, oracle+"/not-maximal", ev,
				"Blocks() reports the touching blocks [%#x,%#x) and [%#x,%#x) separately (stored blocks are the maximal continuous runs)", prev.Begin(), prev.End(), iv.Begin(), iv.End())
		}
		prev = &iv
	}
	return true
}

// checkAliases: no operation may alter a value previously handed to or
// returned by the memory.
func (h *harness) checkAliases(ev int) bool {
	for _, s := range h.snaps {
		if now := refeval.Render(s.ex); now != s.text {
			return !h.ctx.Fail(h.prop, "aliasing", "aliasing/expr-changed", ev,
				"value %s changed after event %d: was %s, is %s", s.label, ev, s.text, now)
		}
	}
	for _, s := range h.msnap {
		now := ""
		if _, _, p := core.Guard(func() { now = fmtRanges(rangesOf(s.live)) }); p {
			now = "<unreadable>"
		}
		if now != s.text {
			return !h.ctx.Fail(h.prop, "aliasing", "aliasing/ranges-changed", ev,
				"interval list %s changed after event %d: was %s, is %s", s.label, ev, s.text, now)
		}
	}
	for _, s := range h.ssnap {
		if !bytes.Equal(s.live, s.copy) {
			return !h.ctx.Fail(h.prop, "aliasing", "aliasing/slice-changed", ev,
				"byte slice %s changed after event %d: was %x, is %x", s.label, ev, s.copy, s.live)
		}
	}
	return true
}

// crossInvariants runs after every event: Blocks, Missing over the hull and a
// Load of each maximal run (clipped), so that a corruption is caught at the
// event that causes it.
func (h *harness) crossInvariants(ev int, mem memory.Memory, m *bytemem.Mem, tag string) bool {
	if !h.checkBlocks(ev, tag+"blocks", mem, m) {
		return false
	}
	runs := m.Blocks()
	if len(runs) > 0 {
		lo, hi := runs[0].B, runs[len(runs)-1].E
		if lo > 0 {
			lo--
		}
		if hi-lo < 255 && hi < ^uint64(0)-1 { // (the hull stays within the supported ranges)
			hi++
		}
		if hi-lo <= 255 {
			if !h.checkMissing(ev, tag+"missing", mem, m, lo, int(hi-lo)) {
				return false
			}
		}
	}
	for i, r := range runs {
		if i >= 6 {
			break
		}
		w := r.E - r.B
		if w > 64 {
			w = 64
		}
		if !h.checkLoad(ev, tag+"load", mem, m, r.B, int(w), false) {
			return false
		}
	}
	return true
}

func shape(m *bytemem.Mem) string {
	var sb strings.Builder
	bucket := func(n uint64) byte {
		switch {
		case n == 1:
			return '1'
		case n == 2:
			return '2'
		case n <= 4:
			return '4'
		case n <= 8:
			return '8'
		default:
			return 'L'
		}
	}
	runs := m.Blocks()
	for i, r := range runs {
		if i > 0 {
			sb.WriteByte('g')
			sb.WriteByte(bucket(r.B - runs[i-1].E))
		}
		// pieces within the run
		pieces := 1
		for a := r.B + 1; a < r.E; a++ {
			p, c := m.Cells[a-1], m.Cells[a]
			if p.Conc && c.Conc {
				continue
			}
			if !(p.Val == c.Val && p.Idx+1 == c.Idx && !p.Conc && !c.Conc) {
				pieces++
			}
		}
		fmt.Fprintf(&sb, "r%c%d", bucket(r.E-r.B), pieces)
		if i > 8 {
			sb.WriteString("+")
			break
		}
	}
	return sb.String()
}

func (e *Engine) Execute(tr core.Trace, ctx *core.Ctx) {
	t := tr.(*Trace)
	h := &harness{ctx: ctx, prop: ctx.Prop, vset: refeval.StandardValuations(t.VSeed, 4)}
	for _, v := range t.Vals {
		var ex expr.Expr
		_, _, p := core.Guard(func() { ex = v.Build() })
		if p {
			ex = expr.Zero
		}
		if c, isC := ex.(expr.Const); isC && t.Hidden && c.Width() < 200 {
			// the same constant, but cut out of a wider one: its byte slice
			// has non-zero bytes hidden behind its length
			n := 1 + int(t.VSeed+uint64(len(h.built)))%8
			wide := append(append([]byte(nil), c.Bytes()...), make([]byte, n)...)
			for k := 0; k < n; k++ {
				wide[int(c.Width())+k] = byte(0xd1 + k)
			}
			ex = expr.NewConst(wide, c.Width()+expr.Width(n)).WithWidth(c.Width())
		}
		h.built = append(h.built, ex)
	}
	if t.Hidden {
		ctx.Probe("constants_with_hidden_capacity")
	}
	for _, v := range t.Views {
		var ex expr.Expr = expr.Zero
		if v.Of >= 0 && v.Of < len(t.Vals) && v.W >= 1 {
			if c, isC := h.built[v.Of].(expr.Const); isC && int(c.Width()) > v.W {
				ex = c.WithWidth(expr.Width(v.W))
				ctx.Probe("value_is_a_narrowed_view_of_another")
			}
		}
		h.built = append(h.built, ex)
	}
	switch t.Obj {
	case "sparse":
		h.mem, h.mod = memory.NewSparse(), bytemem.New()
		e.runMemOps(t, h, nil, nil)
	case "bytes":
		e.runBytes(t, h)
	case "overlay":
		e.runOverlay(t, h)
	case "regs":
		e.runRegs(t, h)
	}
	if h.readAfterOvl {
		ctx.MarkNonTrivial()
	}
}

func decodeInit(t *Trace) []initBlock {
	out := make([]initBlock, 0, len(t.Init))
	for _, b := range t.Init {
		bs, _ := hex.DecodeString(b.Hex)
		out = append(out, initBlock{model.Addr(b.Begin), bs})
	}
	return out
}

func (e *Engine) newBytes(t *Trace, h *harness, oracle string) (*memory.Bytes, *bytemem.Mem, bool) {
	inits := decodeInit(t)
	if t.Shared {
		// the caller's blocks are windows into one image buffer, laid out in
		// the order given (not by address), with spare room behind the last:
		// every slice has capacity beyond its length, as slices of a file
		// image have
		total := 16
		for _, b := range inits {
			total += len(b.bs)
		}
		buf := make([]byte, total)
		for i := range buf {
			buf[i] = 0xa5
		}
		off := 0
		for i := range inits {
			n := copy(buf[off:], inits[i].bs)
			inits[i].bs = buf[off : off+n]
			off += n
		}
		h.ssnap = append(h.ssnap, sliceSnap{"the buffer the initial blocks are windows of", buf, append([]byte(nil), buf...)})
		h.ctx.Probe("initial_blocks_share_a_buffer")
	}
	blocks := make([]memory.ByteBlock, len(inits))
	for i, b := range inits {
		blocks[i] = b
		h.ssnap = append(h.ssnap, sliceSnap{fmt.Sprintf("initial block %d", i), b.bs, append([]byte(nil), b.bs...)})
	}
	var bm *memory.Bytes
	var err error
	fn, msg, panicked := core.Guard(func() { bm, err = memory.NewBytes(blocks) })
	if panicked {
		h.ctx.Fail(h.prop, "no-crash", "panic/"+fn+"/newbytes", -1, "NewBytes panicked: %s", msg)
		return nil, nil, false
	}
	overlap := overlapInit(t.Init)
	emptyInvolved := false
	for _, b := range t.Init {
		if len(b.Hex) == 0 {
			emptyInvolved = true
		}
	}
	h.ctx.Note("newbytes err=%v overlap=%v", err != nil, overlap)
	if (err != nil) != overlap && !(emptyInvolved && err != nil && !overlap) {
		h.ctx.Fail(h.prop, oracle, oracle+"/constructor", -1, "NewBytes error=%v but initial blocks overlap=%v: %+v", err, overlap, t.Init)
		return nil, nil, false
	}
	if err != nil {
		return nil, nil, false
	}
	m := bytemem.New()
	for _, b := range inits {
		m.StoreBytes(uint64(b.begin), b.bs)
	}
	return bm, m, true
}

func (e *Engine) runBytes(t *Trace, h *harness) {
	bm, m, ok := e.newBytes(t, h, "bytes")
	if !ok {
		return
	}
	h.mem, h.mod = bm, m
	if !h.crossInvariants(-1, h.mem, h.mod, "inv-") || !h.checkAliases(-1) {
		return
	}
	e.runMemOps(t, h, nil, nil)
}

func (e *Engine) runOverlay(t *Trace, h *harness) {
	var base memory.Memory
	var baseMod *bytemem.Mem
	if t.BaseKind == "bytes" {
		bm, m, ok := e.newBytes(t, h, "base-bytes")
		if !ok {
			return
		}
		base, baseMod = bm, m
	} else {
		sp := memory.NewSparse()
		baseMod = bytemem.New()
		for _, op := range t.BaseOps {
			if op.V >= len(h.built) {
				continue
			}
			id := h.addVal(h.built[op.V], op.W)
			fn, msg, panicked := core.Guard(func() { sp.Store(model.Addr(op.Addr), h.built[op.V], expr.Width(op.W)) })
			if panicked {
				h.ctx.Fail(h.prop, "no-crash", "panic/"+fn+"/base-store", -1, "base Store panicked: %s", msg)
				return
			}
			baseMod.StoreVal(op.Addr, op.W, id)
		}
		base = sp
	}
	upper := memory.NewSparse()
	upperMod := bytemem.New()
	ov := memory.NewOverlay(base, upper)
	h.mem = ov
	h.mod = bytemem.Union(baseMod, upperMod)
	// The base is never modified: a rendered snapshot of its blocks and of
	// the loads of everything that was put into it must stay identical
	// (independent of how well the base type composes reads: that is
	// C14/C15's business).
	baseSnap := func() string {
		var sb strings.Builder
		_, _, p := core.Guard(func() {
			sb.WriteString(fmtRanges(rangesOf(base.Blocks())))
			for i, op := range t.BaseOps {
				if i >= 8 {
					break
				}
				ex, ok := base.Load(model.Addr(op.Addr), expr.Width(op.W))
				fmt.Fprintf(&sb, "@%#x/%d=%v:%s", op.Addr, op.W, ok, refeval.Render(ex))
			}
			for i, b := range t.Init {
				w := len(b.Hex) / 2
				if i >= 8 || w == 0 {
					continue
				}
				if w > 255 {
					w = 255
				}
				ex, ok := base.Load(model.Addr(b.Begin), expr.Width(w))
				fmt.Fprintf(&sb, "@%#x/%d=%v:%s", b.Begin, w, ok, refeval.Render(ex))
			}
		})
		if p {
			sb.WriteString("PANIC")
		}
		return sb.String()
	}
	base0 := baseSnap()
	e.runMemOps(t, h, func(ev int) bool {
		if !h.checkBlocks(ev, "base-blocks", base, baseMod) {
			return false
		}
		if now := baseSnap(); now != base0 {
			return !h.ctx.Fail(h.prop, "base-unmodified", "base-unmodified/changed", ev,
				"base layer changed: was %s, is %s", base0, now)
		}
		return true
	}, func(addr uint64, w int, id int) {
		upperMod.StoreVal(addr, w, id)
		h.mod = bytemem.Union(baseMod, upperMod)
	})
}

// runMemOps applies the history to h.mem. extra runs after every event;
// onStore lets the overlay keep its two-layer model.
func (e *Engine) runMemOps(t *Trace, h *harness, extra func(ev int) bool, onStore func(addr uint64, w int, id int)) {
	ctx := h.ctx
	for i, op := range t.Ops {
		ctx.Event(i, fmt.Sprintf("%s %#x %d v%d", op.K, op.Addr, op.W, op.V))
		if op.W < 1 || op.W > 255 {
			continue
		}
		switch op.K {
		case "store":
			if op.V < 0 || op.V >= len(h.built) {
				continue
			}
			ex := h.built[op.V]
			if op.FromLoad > 0 && op.FromLoad <= len(h.loaded) {
				ex = h.loaded[op.FromLoad-1]
				ctx.Probe("store_of_loaded_value")
			}
			if t.Obj == "bytes" {
				if _, isC := ex.(expr.Const); !isC {
					continue // outside the type's contract (documented panic)
				}
			}
			for a := uint64(0); a < uint64(op.W); a++ {
				if h.mod.Has(op.Addr + a) {
					h.sawOverlap = true
					ctx.Probe("overlapping_write")
					break
				}
			}
			h.remember(fmt.Sprintf("handed to Store(%#x,%d) at event %d", op.Addr, op.W, i), ex)
			fn, msg, panicked := core.Guard(func() { h.mem.Store(model.Addr(op.Addr), ex, expr.Width(op.W)) })
			if panicked {
				if ctx.Fail(h.prop, "no-crash", "panic/"+fn+"/store", i, "Store(%#x,%d) panicked: %s", op.Addr, op.W, msg) {
					return
				}
				return // state of the object is unknown after a panic inside Store
			}
			id := h.addVal(ex, op.W)
			if onStore != nil {
				onStore(op.Addr, op.W, id)
			} else {
				h.mod.StoreVal(op.Addr, op.W, id)
			}
			if int(ex.Width()) != op.W {
				ctx.Probe("value_width_differs_from_write_width")
			}
		case "load":
			if h.sawOverlap && h.mod.HasAll(op.Addr, op.W) {
				h.readAfterOvl = true
			}
			g := h.geometry(h.mod, op.Addr, op.W)
			ctx.Probe("load:" + g)
			if !h.checkLoad(i, "load", h.mem, h.mod, op.Addr, op.W, true) {
				return
			}
		case "missing":
			if n := len(h.mod.Missing(op.Addr, op.W)); n >= 2 {
				ctx.Probe("missing_with_2plus_gaps")
			}
			if !h.checkMissing(i, "missing", h.mem, h.mod, op.Addr, op.W) {
				return
			}
		case "blocks":
			if !h.checkBlocks(i, "blocks", h.mem, h.mod) {
				return
			}
		default:
			continue
		}
		if !h.checkAliases(i) {
			return
		}
		if !h.crossInvariants(i, h.mem, h.mod, "inv-") {
			return
		}
		if extra != nil && !extra(i) {
			return
		}
		ctx.State(op.K + ":" + shape(h.mod))
	}
}

// ---- C18: register map and effect application ----

type regModel struct {
	val int
	w   int
}

func (e *Engine) runRegs(t *Trace, h *harness) {
	ctx := h.ctx
	st := state.New()
	regs := map[string]regModel{}
	mems := map[string]*bytemem.Mem{}
	lastStore := map[string][]Op{}
	if t.BytesIO {
		// one of the address spaces is a byte memory (as the program image
		// is); only constants go there
		if bm, err := memory.NewBytes(nil); err == nil {
			st.Mems[expr.Key("io")] = bm
			mems["io"] = bytemem.New()
			ctx.Probe("regs_history_over_a_byte_memory")
		}
	}

	snapshot := func() string {
		var sb strings.Builder
		keys := []string{}
		for k := range st.Regs.Values() {
			keys = append(keys, string(k))
		}
		sortStrings(keys)
		for _, k := range keys {
			fmt.Fprintf(&sb, "%s=%s;", k, refeval.Render(st.Regs.Values()[expr.Key(k)]))
		}
		mk := []string{}
		for k := range st.Mems {
			mk = append(mk, string(k))
		}
		sortStrings(mk)
		for _, k := range mk {
			fmt.Fprintf(&sb, "|%s:%s", k, fmtRanges(rangesOf(st.Mems.Blocks(expr.Key(k)))))
			for _, op := range lastStore[k] {
				ex, ok := st.Mems.Load(expr.Key(k), model.Addr(op.Addr), expr.Width(op.W))
				fmt.Fprintf(&sb, "@%#x/%d=%v:%s", op.Addr, op.W, ok, refeval.Render(ex))
			}
		}
		return sb.String()
	}

	checkRegLoad := func(ev int, key string, w int, explicit bool) bool {
		var ex expr.Expr
		var ok bool
		fn, msg, panicked := core.Guard(func() { ex, ok = st.Regs.Load(expr.Key(key), expr.Width(w)) })
		if panicked {
			return !ctx.Fail(h.prop, "no-crash", "panic/"+fn+"/regload", ev, "Regs.Load(%s,%d) panicked: %s", key, w, msg)
		}
		rm, want := regs[key]
		ctx.Note("rload %s %d -> %v", key, w, ok)
		if ok != want {
			return !ctx.Fail(h.prop, "regs", "regs/presence", ev, "Regs.Load(%s,%d) present=%v, model written=%v", key, w, ok, want)
		}
		if !ok {
			return true
		}
		if ex == nil || int(ex.Width()) != w {
			return !ctx.Fail(h.prop, "regs", "regs/width", ev, "Regs.Load(%s,%d) returned width %v", key, w, ex)
		}
		if explicit {
			h.loaded = append(h.loaded, ex)
		}
		cls := "same"
		if w < rm.w {
			cls = "narrower-read"
		} else if w > rm.w {
			cls = "wider-read"
		}
		ctx.Probe("rload:" + cls)
		for vi, v := range h.vset {
			stored := refeval.EvalBytes(h.vals[rm.val].ex, v, rm.w) // adjusted to its write width
			want := make([]byte, w)
			copy(want, stored) // then zero-extended or truncated to w
			got := refeval.EvalBytes(ex, v, w)
			if !bytes.Equal(got, want) {
				return !ctx.Fail(h.prop, "regs", "regs/value/"+cls, ev,
					"Regs.Load(%s,%d) under valuation %d = %x, want %x (last write width %d); expr %s",
					key, w, vi, got, want, rm.w, refeval.Render(ex))
			}
		}
		return true
	}

	for i, op := range t.Ops {
		ctx.Event(i, fmt.Sprintf("%s %s %d v%d", op.K, op.Key, op.W, op.V))
		if op.W < 1 || op.W > 255 || op.Key == "" {
			continue
		}
		var ex expr.Expr
		if op.K != "rload" {
			if op.V < 0 || op.V >= len(h.built) {
				continue
			}
			ex = h.built[op.V]
			if op.ValFrom > 0 {
				if op.ValFrom > len(h.loaded) {
					continue
				}
				ex = h.loaded[op.ValFrom-1] // the object itself, no copy
				if op.ValWidth {
					op.W = int(ex.Width())
				}
				ctx.Probe("value_is_what_a_register_read_returned")
			}
			if t.BytesIO && op.K == "apply_mem" && op.Key == "io" {
				if _, isC := ex.(expr.Const); !isC {
					continue // a byte memory takes constants only
				}
			}
		}
		switch op.K {
		case "rstore":
			h.remember(fmt.Sprintf("handed to Regs.Store(%s) at event %d", op.Key, i), ex)
			fn, msg, panicked := core.Guard(func() { st.Regs.Store(expr.Key(op.Key), ex, expr.Width(op.W)) })
			if panicked {
				ctx.Fail(h.prop, "no-crash", "panic/"+fn+"/regstore", i, "Regs.Store panicked: %s", msg)
				return
			}
			regs[op.Key] = regModel{h.addVal(ex, op.W), op.W}
			h.readAfterOvl = true
		case "rload":
			if !checkRegLoad(i, op.Key, op.W, true) {
				return
			}
		case "apply_reg":
			var ef expr.Effect
			if _, _, p := core.Guard(func() { ef = expr.NewRegStore(ex, expr.Key(op.Key), expr.Width(op.W)) }); p {
				continue
			}
			var ok bool
			fn, msg, panicked := core.Guard(func() { ok = st.Apply(ef) })
			if panicked {
				ctx.Fail(h.prop, "no-crash", "panic/"+fn+"/apply", i, "Apply(RegStore) panicked: %s", msg)
				return
			}
			if !ok {
				if ctx.Fail(h.prop, "apply", "apply/regstore-refused", i, "Apply(RegStore %s) returned false", op.Key) {
					return
				}
				continue
			}
			regs[op.Key] = regModel{h.addVal(ex, op.W), op.W}
		case "apply_mem":
			var ax expr.Expr
			if op.AddrFrom > 0 {
				// the address is computed from what an earlier register read
				// returned (the caller read the register and shifted it)
				if op.AddrFrom > len(h.loaded) || op.AddrSh < 0 || op.AddrSh > 255 {
					continue
				}
				ld := h.loaded[op.AddrFrom-1]
				if _, isC := ld.(expr.Const); !isC {
					// whether a symbolic value "reduces to a constant" is
					// judged on the generated address shapes only
					ctx.Probe("apply_mem_address_from_symbolic_read_skipped")
					continue
				}
				// the very object the register file returned becomes part of
				// the address (no copy: the caller does not copy either)
				ax = expr.NewBinary(expr.Rsh, ld, expr.NewConstUint(uint8(op.AddrSh), 1), 8)
				op.AddrX = refeval.FromExpr(ax)
				ctx.Probe("apply_mem_address_from_register_read")
			} else {
				if op.AddrX == nil {
					continue
				}
				if _, _, p := core.Guard(func() { ax = op.AddrX.Build() }); p {
					continue
				}
			}
			var ef expr.Effect
			if _, _, p := core.Guard(func() { ef = expr.NewMemStore(ex, expr.Key(op.Key), ax, expr.Width(op.W)) }); p {
				continue
			}
			constAddr, isConst := constAddress(op.AddrX)
			if isConst && op.AddrFrom > 0 && constAddr+uint64(op.W) >= ^uint64(0)-1 || isConst && constAddr+uint64(op.W) < constAddr {
				// ranges reaching the end of the address space are outside
				// what the memories represent (see DESIGN 6.6)
				ctx.Probe("apply_mem_address_at_the_end_of_the_address_space_skipped")
				continue
			}
			before := snapshot()
			var ok bool
			fn, msg, panicked := core.Guard(func() { ok = st.Apply(ef) })
			if panicked {
				ctx.Fail(h.prop, "no-crash", "panic/"+fn+"/apply", i, "Apply(MemStore) panicked: %s", msg)
				return
			}
			ctx.Note("apply_mem const=%v -> %v", isConst, ok)
			if !isConst {
				ctx.Fault("apply_symbolic_address")
				if ok {
					if ctx.Fail(h.prop, "apply", "apply/symbolic-address-accepted", i,
						"Apply(MemStore) with address %s (does not reduce to a constant) returned true", refeval.Render(ax)) {
						return
					}
				}
				if after := snapshot(); after != before {
					if ctx.Fail(h.prop, "apply", "apply/refused-but-changed", i,
						"refused Apply changed the state:\n before %s\n after  %s", before, after) {
						return
					}
				}
				continue
			}
			if !ok {
				if ctx.Fail(h.prop, "apply", "apply/constant-address-refused", i,
					"Apply(MemStore) with constant address %s returned false", refeval.Render(ax)) {
					return
				}
				continue
			}
			m := mems[op.Key]
			if m == nil {
				m = bytemem.New()
				mems[op.Key] = m
			}
			id := h.addVal(ex, op.W)
			m.StoreVal(constAddr, op.W, id)
			lastStore[op.Key] = append(lastStore[op.Key], Op{Addr: constAddr, W: op.W})
			if len(lastStore[op.Key]) > 6 {
				lastStore[op.Key] = lastStore[op.Key][1:]
			}
			// The memory must now hold the value at that address (whole
			// stored value: independent of partial-read composition).
			sub := &harness{ctx: ctx, prop: h.prop, vals: h.vals, vset: h.vset}
			mem := st.Mems[expr.Key(op.Key)]
			if mem == nil {
				if ctx.Fail(h.prop, "apply", "apply/memory-not-created", i, "memory %s absent after accepted MemStore", op.Key) {
					return
				}
				continue
			}
			if !sub.checkLoad(i, "apply-load", mem, m, constAddr, op.W, false) {
				return
			}
		default:
			continue
		}
		if !h.checkAliases(i) {
			return
		}
		// cross-invariant: every written register still reads as modelled
		// at its own write width.
		rk := []string{}
		for k := range regs {
			rk = append(rk, k)
		}
		sortStrings(rk)
		for _, k := range rk {
			if !checkRegLoad(i, k, regs[k].w, false) {
				return
			}
		}
		ctx.State(fmt.Sprintf("%s:%d regs %d mems", op.K, len(regs), len(mems)))
	}
}

// constAddress reports whether the address expression is built from
// constants only (then it reduces to a constant) and its value mod 2^64.
func constAddress(j *refeval.J) (uint64, bool) {
	var onlyConst func(*refeval.J) bool
	onlyConst = func(x *refeval.J) bool {
		if x.IsConst() {
			return true
		}
		if x.R != "" || x.M != "" {
			return false
		}
		for _, a := range x.A {
			if !onlyConst(a) {
				return false
			}
		}
		return len(x.A) > 0
	}
	if !onlyConst(j) {
		return 0, false
	}
	v := refeval.Eval(j.Build(), refeval.HashVal{Mode: 1})
	bs := refeval.ToLE(v, 8)
	if len(v.Bytes()) > 8 {
		bs = refeval.ToLE(v, 40)[:8]
	}
	var a uint64
	for i := 0; i < 8; i++ {
		a |= uint64(bs[i]) << (8 * uint(i))
	}
	return a, true
}

func sortStrings(s []string) {
	for i := 1; i < len(s); i++ {
		for j := i; j > 0 && s[j-1] > s[j]; j-- {
			s[j-1], s[j] = s[j], s[j-1]
		}
	}
}

func (e *Engine) Describe(prop string) core.Description {
	d := core.Description{QuickRuns: 20000}
	common := "Each run = one seeded history on one freshly built object: swarm configuration (address window placement/width, width distribution, symbolic share, history length) then 1-40 events (thorough: up to 80) with concrete arguments; after EVERY event: aliasing snapshots of every value that crossed the interface, Blocks(), Missing over the hull and Load of every stored run are compared with the bytemem reference under 6 valuations (all-zero, all-ones, 4 pseudo-random). "
	nontriv := "Non-trivial = the history contains an overlapping write followed by a read of fully written bytes; distinct = distinct event-log hashes (the hash folds every operation, argument and implementation answer) among non-trivial runs."
	switch prop {
	case "C14":
		d.Rule = common + "Object: memory.Sparse; values: constants and symbolic trees (RegLoad/MemLoad leaves, all operators) whose width may differ from the write width. " + nontriv
		d.ComponentsReal = []string{"memory.Sparse", "memory.cutExpr", "exprtransform.SetWidth", "exprtools.BitOr", "zyedidia interval tree", "interval.Map"}
	case "C15":
		d.Rule = common + "Object: memory.Bytes built from 0-6 initial blocks (overlapping, abutting, empty, unsorted) then constant stores. " + nontriv
		d.ComponentsReal = []string{"memory.NewBytes", "memory.Bytes.Store/Load/Missing/Blocks", "memory.dedupBlocks", "interval.MapComplement"}
	case "C16":
		d.Rule = common + "Object: memory.Overlay(base, Sparse) with base = Bytes (initial blocks) or pre-filled Sparse (symbolic values allowed); after every event the base's Blocks and contents are compared with the untouched base model. " + nontriv
		d.ComponentsReal = []string{"memory.Overlay", "memory.Sparse", "memory.Bytes", "interval.MapIntersect/MapUnion/MapComplement"}
	case "C18":
		d.Rule = "Each run = one seeded history of Regs.Store / Regs.Load / State.Apply(RegStore) / State.Apply(MemStore with constant, constant-foldable or symbolic address) on a fresh state.State; after every event every written register is re-read at its write width and compared with the last-write model under 6 valuations; a refused Apply must return false and leave a rendered snapshot of all registers and memories unchanged. Non-trivial = at least one register store happened; distinct = distinct event-log hashes among non-trivial runs."
		d.ComponentsReal = []string{"state.RegMap", "state.State.Apply", "memory.MemMap", "memory.Sparse", "exprtransform.ConstFold/SetWidth"}
	}
	d.ComponentsStub = []string{}
	d.Assumptions = []string{
		"refeval (big-integer evaluator written from pkg/expr's documented width rules) and bytemem are the trusted reference",
		"ranges never wrap past 2^64-1 (as the property states); widths 1..255",
		"sampling, not enumeration: a clean batch is evidence, not proof",
	}
	return d
}
