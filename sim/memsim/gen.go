package memsim

import (
	"encoding/hex"
	"encoding/json"
	"mltwist/internal/consoleui/verifsim/core"
	"mltwist/internal/consoleui/verifsim/refeval"
	"mltwist/pkg/expr"
)

// Engine implements core.Engine.
type Engine struct{}

func init() { core.Register(&Engine{}) }

func (*Engine) Name() string    { return "memsim" }
func (*Engine) Props() []string { return []string{"C14", "C15", "C16", "C18"} }
func (*Engine) Decode(raw json.RawMessage) (core.Trace, error) {
	return decode(raw)
}

type gen struct {
	r      *core.Rand
	t      *Trace
	base   uint64
	win    int
	stored []Op // stores so far (for biasing reads)
	loads  int  // load events so far
	symOK  bool
	maxW   int
	views  int  // views drawn so far (their final value numbers follow the last of Vals)
	top    bool // the window is the last of the supported address range
	far    bool // two clusters of addresses 2^63 apart
	tiny   bool // mostly 1-2 byte accesses (with a wide window: many separate blocks)
	regs   bool // register-file histories (C18): further value and address shapes
}

func (g *gen) width() int {
	if g.tiny && g.r.Chance(3, 4) {
		return g.r.Range(1, 2)
	}
	var w int
	switch g.r.Weighted([]int{60, 25, 10, 5}) {
	case 0:
		w = g.r.Range(1, 8)
	case 1:
		w = g.r.Range(9, 16)
	case 2:
		w = g.r.Range(17, 64)
	default:
		w = g.r.Range(65, 255)
	}
	if w > g.maxW {
		w = g.r.Range(1, g.maxW)
	}
	return w
}

func (g *gen) addr() uint64 {
	a := g.base + uint64(g.r.Intn(g.win))
	if g.far && g.r.Chance(1, 3) {
		a ^= 1 << 63 // a second cluster, 2^63 away from the first
	}
	return a
}

func (g *gen) constVal(w int) *refeval.J {
	bs := g.r.Bytes(w)
	switch g.r.Intn(6) {
	case 0:
		for i := range bs {
			bs[i] = 0
		}
	case 1:
		for i := range bs {
			bs[i] = 0xff
		}
	case 2:
		for i := range bs {
			bs[i] = byte(0x10*(i%15+1) + i%16)
		}
	case 3: // zero in its low bytes only (up to a whole machine word), the rest is not
		if w > 1 {
			for i := 0; i < w && i < g.r.Range(1, 8); i++ {
				bs[i] = 0
			}
			bs[w-1] |= 1
		}
	}
	return refeval.ConstJ(bs)
}

var symRegs = []string{"x1", "x2", "x3", "t0"}
var symMems = []string{"memory", "io"}

func (g *gen) leaf(w int) *refeval.J {
	switch g.r.Intn(4) {
	case 0:
		return g.constVal(w)
	case 1, 2:
		return refeval.RegJ(symRegs[g.r.Intn(len(symRegs))], w)
	default:
		if g.regs && g.r.Chance(1, 3) {
			// a load through a computed address: a register narrowed or widened
			// by a width adapter - the adapter is part of the address, not of
			// the loaded value
			a := refeval.BinJ(int(expr.Add), refeval.RegJ(symRegs[g.r.Intn(len(symRegs))], 8), refeval.ConstU(0, 1), g.r.Range(1, 8))
			if g.r.Bool() {
				a = refeval.BinJ(int(expr.Add), a, refeval.ConstU(0, 1), 8)
			}
			return refeval.MemJ(symMems[g.r.Intn(len(symMems))], a, w)
		}
		return refeval.MemJ(symMems[g.r.Intn(len(symMems))], refeval.ConstU(uint64(g.r.Intn(64)), 8), w)
	}
}

func (g *gen) symVal(w int, depth int) *refeval.J {
	if depth <= 0 || g.r.Chance(1, 3) {
		return g.leaf(w)
	}
	sw := func() int {
		if g.r.Chance(2, 3) {
			return w
		}
		return g.r.Range(1, 12)
	}
	if g.r.Chance(1, 6) {
		// a width adapter (x + 0 at another width), narrowing or widening,
		// possibly stacked: what SetWidth and the memories produce themselves
		inner := g.symVal(g.r.Range(1, 16), depth-1)
		if g.r.Chance(1, 3) {
			inner = refeval.BinJ(int(expr.Add), inner, refeval.ConstU(0, 1), g.r.Range(1, 16))
		}
		return refeval.BinJ(int(expr.Add), inner, refeval.ConstU(0, 1), w)
	}
	if g.r.Chance(1, 5) {
		return refeval.LessJ(g.symVal(sw(), depth-1), g.symVal(sw(), depth-1), g.symVal(sw(), depth-1), g.symVal(sw(), depth-1), w)
	}
	op := g.r.Range(int(expr.Add), int(expr.Nand))
	y := g.symVal(sw(), depth-1)
	if (op == int(expr.Lsh) || op == int(expr.Rsh)) && g.r.Chance(3, 4) {
		y = refeval.ConstU(uint64(g.r.Intn(8*w+9)), 2)
	}
	return refeval.BinJ(op, g.symVal(sw(), depth-1), y, w)
}

// value draws a value to store with write width w and returns its index.
func (g *gen) value(w int) int {
	if len(g.t.Vals) > 0 && g.r.Chance(1, 8) {
		// a narrowed view of a constant that is (or will be) stored as well
		of := g.r.Intn(len(g.t.Vals))
		if c := g.t.Vals[of]; c.IsConst() && c.Width() > 1 {
			g.t.Views = append(g.t.Views, View{Of: of, W: g.r.Range(1, c.Width()-1)})
			g.views++
			return -g.views // resolved to len(Vals)+k-1 once all values are drawn
		}
	}
	vw := w
	if g.r.Chance(1, 4) {
		vw = g.r.Range(1, 20) // value width differs from the write width
	}
	var v *refeval.J
	if g.symOK && g.r.Chance(2, 5) {
		v = g.symVal(vw, 2)
	} else {
		v = g.constVal(vw)
	}
	g.t.Vals = append(g.t.Vals, v)
	return len(g.t.Vals) - 1
}

// readRange draws a range biased to overlap, abut or sit inside earlier stores.
func (g *gen) readRange() (uint64, int) {
	if len(g.stored) > 0 && g.r.Chance(4, 5) {
		s := g.stored[g.r.Intn(len(g.stored))]
		a, w := s.Addr, s.W
		switch g.r.Intn(8) {
		case 0: // exact
		case 1: // starts inside
			if w > 1 {
				d := g.r.Range(1, w-1)
				a, w = a+uint64(d), w-d
			}
		case 2: // ends inside
			if w > 1 {
				w = g.r.Range(1, w-1)
			}
		case 3: // strictly inside
			if w > 2 {
				d := g.r.Range(1, w-2)
				a, w = a+uint64(d), g.r.Range(1, w-d-1)
			}
		case 4: // spans to a later store
			o := g.stored[g.r.Intn(len(g.stored))]
			lo, hi := a, o.Addr+uint64(o.W)
			if o.Addr < lo {
				lo = o.Addr
			}
			if a+uint64(w) > hi {
				hi = a + uint64(w)
			}
			if hi-lo <= 255 && hi > lo {
				a, w = lo, int(hi-lo)
			}
		case 5: // one byte before / after
			if a > g.base {
				a, w = a-1, w+1
			}
		case 6:
			w = w + 1
		default: // shifted
			d := g.r.Intn(4)
			a += uint64(d)
		}
		if w > 255 {
			w = 255
		}
		if w < 1 {
			w = 1
		}
		return a, w
	}
	return g.addr(), g.width()
}

func (g *gen) pickBase() {
	switch g.r.Intn(5) {
	case 0:
		g.base = 0
	case 1:
		g.base = 0x1000
	case 2:
		g.base = 0x7ffffffffff0
	case 3:
		g.base = ^uint64(0) - 1024 // ranges stay below 2^64-1
		if g.r.Bool() {
			g.top = true // the window ends with the last byte a range may have (2^64-2)
		}
	default:
		g.base = uint64(g.r.Intn(1 << 20))
	}
	g.win = []int{8, 16, 32, 64}[g.r.Intn(4)]
	if g.top {
		g.base = ^uint64(0) - 1 - uint64(g.win) // base+win = 2^64-1, the exclusive end of the last supported range
	}
	if g.r.Chance(1, 6) && !g.top {
		g.far = true
	}
	if g.r.Chance(1, 6) {
		// a wide window sprinkled with very small pieces: many separate blocks
		g.win, g.tiny = 256, true
		if g.top {
			g.base = ^uint64(0) - 1 - uint64(g.win)
		}
	}
}

func nOps(r *core.Rand, tier string) int {
	if r.Chance(7, 10) {
		return r.Range(1, 8)
	}
	if tier == "thorough" && r.Chance(1, 4) {
		return r.Range(20, 80)
	}
	return r.Range(9, 40)
}

func (e *Engine) Generate(r *core.Rand, prop string, tier string) core.Trace {
	t := &Trace{VSeed: r.Uint64() >> 12}
	g := &gen{r: r, t: t, maxW: 255}
	g.pickBase()
	t.Hidden = r.Chance(1, 3)
	if r.Chance(1, 2) {
		g.maxW = 16
	}
	switch prop {
	case "C14":
		t.Obj, g.symOK = "sparse", r.Chance(3, 4)
		g.memOps(nOps(r, tier))
	case "C15":
		t.Obj = "bytes"
		g.initBlocks()
		g.memOps(nOps(r, tier))
	case "C16":
		t.Obj, g.symOK = "overlay", r.Chance(2, 3)
		if r.Bool() {
			t.BaseKind = "bytes"
			g.initBlocks()
			for len(t.Init) > 0 && overlapInit(t.Init) {
				t.Init = t.Init[:len(t.Init)-1]
			}
		} else {
			t.BaseKind = "sparse"
			n := r.Range(0, 6)
			for i := 0; i < n; i++ {
				w := g.width()
				op := Op{K: "store", Addr: g.addr(), W: w, V: g.value(w)}
				t.BaseOps = append(t.BaseOps, op)
				g.stored = append(g.stored, op)
			}
		}
		g.memOps(nOps(r, tier))
	}
	if g.top && prop != "C18" {
		// no range may reach beyond the last supported byte (2^64-2)
		limit := ^uint64(0) - 1 // exclusive end of the last supported range is limit+1 = 2^64-1
		fix := func(op *Op) {
			if op.K == "blocks" || op.K == "" && op.W == 0 {
				return
			}
			if op.Addr > limit {
				op.Addr = limit
			}
			if room := limit - op.Addr + 1; uint64(op.W) > room {
				op.W = int(room)
			}
		}
		for i := range t.Ops {
			fix(&t.Ops[i])
		}
		for i := range t.BaseOps {
			fix(&t.BaseOps[i])
		}
		for i := range t.Init {
			b := &t.Init[i]
			if b.Begin > limit {
				b.Begin = limit
			}
			if room := limit - b.Begin + 1; uint64(len(b.Hex)/2) > room {
				b.Hex = b.Hex[:2*room]
			}
		}
	}
	switch prop {
	case "C18":
		t.Obj, g.symOK = "regs", r.Chance(3, 4)
		g.regs = true
		t.BytesIO = r.Chance(1, 3)
		g.regOps(nOps(r, tier))
	}
	res := func(ops []Op) {
		for i := range ops {
			if ops[i].V < 0 {
				ops[i].V = len(t.Vals) - ops[i].V - 1
			}
		}
	}
	res(t.Ops)
	res(t.BaseOps)
	return t
}

func overlapInit(bs []InitBlock) bool {
	for i := range bs {
		for j := i + 1; j < len(bs); j++ {
			li, lj := uint64(len(bs[i].Hex)/2), uint64(len(bs[j].Hex)/2)
			if li == 0 || lj == 0 {
				continue
			}
			if bs[i].Begin < bs[j].Begin+lj && bs[j].Begin < bs[i].Begin+li {
				return true
			}
		}
	}
	return false
}

func (g *gen) initBlocks() {
	g.t.Shared = g.r.Bool()
	n := g.r.Weighted([]int{2, 3, 3, 2, 1, 1, 1})
	for i := 0; i < n; i++ {
		l := g.r.Range(0, 12)
		if g.r.Chance(1, 10) {
			l = g.r.Range(13, 300)
		}
		a := g.addr()
		if len(g.t.Init) > 0 && g.r.Chance(1, 3) {
			// abut the previous block exactly
			p := g.t.Init[len(g.t.Init)-1]
			a = p.Begin + uint64(len(p.Hex)/2)
		}
		g.t.Init = append(g.t.Init, InitBlock{Begin: a, Hex: hex.EncodeToString(g.r.Bytes(l))})
		if l > 0 {
			w := l
			if w > 255 {
				w = 255
			}
			g.stored = append(g.stored, Op{Addr: a, W: w})
		}
	}
}

// prevStore picks an earlier store of this history that carries a value.
func (g *gen) prevStore() *Op {
	var c []int
	for i := range g.stored {
		if g.stored[i].K == "store" && g.stored[i].FromLoad == 0 {
			c = append(c, i)
		}
	}
	if len(c) == 0 {
		return nil
	}
	return &g.stored[c[g.r.Intn(len(c))]]
}

func (g *gen) memOps(n int) {
	for i := 0; i < n; i++ {
		switch g.r.Weighted([]int{45, 30, 15, 10}) {
		case 0:
			var a uint64
			var w int
			if g.r.Chance(1, 2) {
				a, w = g.readRange() // overlapping writes are the norm
			} else {
				a, w = g.addr(), g.width()
			}
			if prev := g.prevStore(); prev != nil && g.r.Chance(1, 6) {
				// the same value once more: with another width, at a shifted
				// address, or exactly over what an intervening write left of it
				switch g.r.Intn(3) {
				case 0:
					op := Op{K: "store", Addr: prev.Addr, W: g.width(), V: prev.V}
					g.t.Ops = append(g.t.Ops, op)
					g.stored = append(g.stored, op)
				case 1:
					op := Op{K: "store", Addr: prev.Addr + uint64(g.r.Intn(4)), W: prev.W, V: prev.V}
					g.t.Ops = append(g.t.Ops, op)
					g.stored = append(g.stored, op)
				default:
					if prev.W > 1 {
						k := g.r.Range(1, prev.W-1)
						head := Op{K: "store", Addr: prev.Addr, W: k, V: g.value(k)}
						again := Op{K: "store", Addr: prev.Addr + uint64(k), W: prev.W - k, V: prev.V}
						if g.r.Chance(1, 3) { // the tail is overwritten instead
							head = Op{K: "store", Addr: prev.Addr + uint64(k), W: prev.W - k, V: g.value(prev.W - k)}
							again = Op{K: "store", Addr: prev.Addr, W: k, V: prev.V}
						}
						g.t.Ops = append(g.t.Ops, head, again)
						g.stored = append(g.stored, head, again)
					}
				}
				continue
			}
			op := Op{K: "store", Addr: a, W: w, V: g.value(w)}
			if g.loads > 0 && g.r.Chance(1, 7) {
				// what came out of the memory goes back in (possibly with a
				// different write width)
				op.FromLoad = 1 + g.r.Intn(g.loads)
			}
			g.t.Ops = append(g.t.Ops, op)
			g.stored = append(g.stored, op)
		case 1:
			a, w := g.readRange()
			g.loads++
			g.t.Ops = append(g.t.Ops, Op{K: "load", Addr: a, W: w})
		case 2:
			a, w := g.readRange()
			if g.r.Chance(1, 3) {
				w = g.r.Range(w, 255)
			}
			g.t.Ops = append(g.t.Ops, Op{K: "missing", Addr: a, W: w})
		default:
			g.t.Ops = append(g.t.Ops, Op{K: "blocks"})
		}
	}
}

var regKeys = []string{"x1", "x2", "x31", "csr1", "#r:w:ip", "flags"}

func (g *gen) regOps(n int) {
	for i := 0; i < n; i++ {
		key := regKeys[g.r.Intn(len(regKeys))]
		w := g.r.Range(1, 16)
		if g.r.Chance(1, 2) {
			w = []int{1, 2, 4, 8, 16}[g.r.Intn(5)]
		}
		switch g.r.Weighted([]int{30, 30, 12, 10, 6, 12}) {
		case 0:
			op := Op{K: "rstore", Key: key, W: w, V: g.value(w)}
			if len(g.stored) > 0 && g.r.Chance(1, 5) {
				// the same value once more, with another width, mostly into the
				// register that already holds it
				prev := g.stored[g.r.Intn(len(g.stored))]
				op.V = prev.V
				if g.r.Chance(3, 4) {
					op.Key = prev.Key
				}
			}
			g.stored = append(g.stored, op)
			g.t.Ops = append(g.t.Ops, op)
		case 1:
			g.loads++
			g.t.Ops = append(g.t.Ops, Op{K: "rload", Key: key, W: w})
		case 2:
			g.t.Ops = append(g.t.Ops, Op{K: "apply_reg", Key: key, W: w, V: g.value(w)})
		case 3: // constant address
			if g.loads > 0 && g.r.Chance(1, 4) {
				// what a register read returned is written to memory as it is
				a := g.addr()
				g.t.Ops = append(g.t.Ops, Op{K: "apply_mem", Key: symMems[g.r.Intn(2)], W: w, V: g.value(w), ValFrom: 1 + g.r.Intn(g.loads), ValWidth: g.r.Chance(2, 3),
					AddrX: refeval.ConstU(a, 8)})
				continue
			}
			if g.loads > 0 && g.r.Chance(1, 3) {
				// ... computed from what a register read returned
				g.t.Ops = append(g.t.Ops, Op{K: "apply_mem", Key: symMems[g.r.Intn(2)], W: w, V: g.value(w),
					AddrFrom: 1 + g.r.Intn(g.loads), AddrSh: []int{1, 3, 4, 7, 8, 12, 0}[g.r.Intn(7)]})
				continue
			}
			a := g.addr()
			g.t.Ops = append(g.t.Ops, Op{K: "apply_mem", Key: symMems[g.r.Intn(2)], W: w, V: g.value(w),
				AddrX: refeval.ConstU(a, 8)})
		case 4: // address that folds to a constant
			a := g.addr()
			d := uint64(g.r.Intn(16))
			x := refeval.BinJ(int(expr.Add), refeval.ConstU(a-d, 8), refeval.ConstU(d, 8), 8)
			g.t.Ops = append(g.t.Ops, Op{K: "apply_mem", Key: symMems[g.r.Intn(2)], W: w, V: g.value(w), AddrX: x})
		default: // address that does not reduce to a constant: must be refused
			var x *refeval.J
			switch g.r.Intn(8) {
			case 7:
				// a shift by a constant wider than the operation whose bits lie
				// above the operation's width: the amount is cut to that width
				// first, so nothing is shifted and the address is the register
				ow := []int{1, 2, 4, 7}[g.r.Intn(4)]
				amount := uint64(1+g.r.Intn(255)) << (8 * uint(ow))
				x = refeval.BinJ([]int{int(expr.Rsh), int(expr.Lsh)}[g.r.Intn(2)], refeval.RegJ([]string{"x1", "x2", "x3"}[g.r.Intn(3)], ow), refeval.ConstU(amount, ow+1), ow)
			case 0:
				x = refeval.RegJ("x1", 8)
			case 1:
				x = refeval.BinJ(int(expr.Add), refeval.RegJ("x2", 8), refeval.ConstU(uint64(g.r.Intn(64)), 8), 8)
			case 2: // 0 / x: all ones when x is 0, so no constant
				x = refeval.BinJ(int(expr.Div), refeval.ConstU(0, 8), refeval.RegJ("x1", 8), 8)
			case 3: // one of two different constants
				x = refeval.LessJ(refeval.RegJ("x2", 8), refeval.ConstU(uint64(g.r.Intn(64)), 8), refeval.ConstU(0x40, 8), refeval.ConstU(0x80, 8), 8)
			case 4:
				x = refeval.BinJ(int(expr.Nand), refeval.RegJ("x1", 8), refeval.ConstU(uint64(g.r.Intn(64))|1, 8), 8)
			case 5:
				x = refeval.BinJ(int(expr.Rsh), refeval.RegJ("x3", 8), refeval.ConstU(uint64(g.r.Intn(8)), 1), 8)
			default:
				x = refeval.MemJ("memory", refeval.ConstU(uint64(g.r.Intn(64)), 8), 8)
			}
			g.t.Ops = append(g.t.Ops, Op{K: "apply_mem", Key: symMems[g.r.Intn(2)], W: w, V: g.value(w), AddrX: x})
		}
	}
}
