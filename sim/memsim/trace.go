// Package memsim simulates histories of operations on mltwist's long-lived
// memory objects (Sparse, Bytes, Overlay) and on the register file / effect
// application, against the bytemem reference model (C14, C15, C16, C18).
package memsim

import (
	"encoding/json"
	"mltwist/internal/consoleui/verifsim/core"
	"mltwist/internal/consoleui/verifsim/refeval"
)

// Op is one event of a history.
type Op struct {
	K    string     `json:"k"` // store load missing blocks | rstore rload apply_reg apply_mem
	Addr uint64     `json:"addr,omitempty"`
	W    int        `json:"w,omitempty"`
	V    int        `json:"v,omitempty"`    // index into Vals
	// FromLoad > 0: store the expression returned by the FromLoad-th
	// successful load of this run instead of Vals[V] (values that came out
	// of the memory go back in)
	FromLoad int `json:"from_load,omitempty"`
	Key  string     `json:"key,omitempty"`  // register / memory key
	AddrX *refeval.J `json:"addrx,omitempty"` // apply_mem: address expression
	// apply_mem: the address is what the AddrFrom-th register read of the
	// history returned (1-based), shifted right by AddrSh bits
	AddrFrom int `json:"addr_from,omitempty"`
	AddrSh   int `json:"addr_sh,omitempty"`
	// apply_mem / apply_reg / rstore: the value is the very object the
	// ValFrom-th register read of the history returned (1-based), not V
	ValFrom int `json:"val_from,omitempty"`
	// with ValFrom: the write width is the width of that value (W is ignored)
	ValWidth bool `json:"val_width,omitempty"`
}

// InitBlock is an initial block of a Bytes memory.
type InitBlock struct {
	Begin uint64 `json:"begin"`
	Hex   string `json:"hex"`
}

// Trace is one run.
// View: see Trace.Views.
type View struct {
	Of int `json:"of"`
	W  int `json:"w"`
}

type Trace struct {
	Obj      string       `json:"obj"`                 // sparse | bytes | overlay | regs
	BaseKind string       `json:"base_kind,omitempty"` // overlay: bytes | sparse
	Init     []InitBlock  `json:"init,omitempty"`      // bytes / overlay-over-bytes
	BytesIO  bool         `json:"bytes_io,omitempty"`  // regs: the memory space "io" is a byte memory (constants only) instead of a sparse one
	Hidden   bool         `json:"hidden,omitempty"`    // constants handed in were narrowed from wider ones (hidden capacity with non-zero bytes behind their length)
	Shared   bool         `json:"shared,omitempty"`    // the initial blocks are windows into one buffer (in trace order)
	BaseOps  []Op         `json:"base_ops,omitempty"`  // overlay-over-sparse: stores applied to the base first
	Vals     []*refeval.J `json:"vals"`
	// Views: further values, numbered behind Vals: the constant Vals[Of]
	// narrowed to W bytes the way callers narrow (Const.WithWidth: the same
	// bytes, seen through a shorter slice)
	Views []View `json:"views,omitempty"`
	Ops   []Op   `json:"ops"`
	VSeed    uint64       `json:"vseed"`
}

func (t *Trace) Len() int { return len(t.Ops) }

func (t *Trace) clone() *Trace {
	c := *t
	c.Ops = append([]Op(nil), t.Ops...)
	c.Init = append([]InitBlock(nil), t.Init...)
	c.BaseOps = append([]Op(nil), t.BaseOps...)
	c.Vals = append([]*refeval.J(nil), t.Vals...)
	return &c
}

func (t *Trace) Without(from, to int) core.Trace {
	c := t.clone()
	c.Ops = append(append([]Op(nil), t.Ops[:from]...), t.Ops[to:]...)
	return c
}

func simplerConst(j *refeval.J) *refeval.J {
	if !j.IsConst() {
		return nil
	}
	bs := make([]byte, j.CW)
	z := refeval.ConstJ(bs)
	if z.C == j.C {
		return nil
	}
	return z
}

func (t *Trace) Simplify(i int) []core.Trace {
	var out []core.Trace
	if i == -1 {
		for k := range t.Init {
			c := t.clone()
			c.Init = append(append([]InitBlock(nil), t.Init[:k]...), t.Init[k+1:]...)
			out = append(out, c)
		}
		for k := range t.BaseOps {
			c := t.clone()
			c.BaseOps = append(append([]Op(nil), t.BaseOps[:k]...), t.BaseOps[k+1:]...)
			out = append(out, c)
		}
		// Replace symbolic values by constants / constants by zero.
		for k, v := range t.Vals {
			if v.IsConst() {
				if z := simplerConst(v); z != nil {
					c := t.clone()
					c.Vals[k] = z
					out = append(out, c)
				}
				continue
			}
			c := t.clone()
			bs := make([]byte, v.Width())
			for x := range bs {
				bs[x] = byte(0x11 * (x + 1))
			}
			c.Vals[k] = refeval.ConstJ(bs)
			out = append(out, c)
			if len(v.A) > 0 {
				for _, a := range v.A {
					c := t.clone()
					c.Vals[k] = a
					out = append(out, c)
				}
			}
		}
		return out
	}
	op := t.Ops[i]
	if op.W > 1 {
		for _, nw := range []int{1, op.W / 2, op.W - 1} {
			if nw >= 1 && nw < op.W {
				c := t.clone()
				c.Ops[i].W = nw
				out = append(out, c)
			}
		}
	}
	return out
}

func decode(raw json.RawMessage) (core.Trace, error) {
	t := &Trace{}
	if err := json.Unmarshal(raw, t); err != nil {
		return nil, err
	}
	return t, nil
}
