// Package bytemem is the reference byte-addressed memory: a map from address
// to a cell that is either a concrete byte or byte Idx of stored value Val
// (value adjusted to its write width). It shares no code with mltwist.
package bytemem

import "sort"

// Cell is one stored byte.
type Cell struct {
	Conc bool
	B    byte
	Val  int // index into the owner's value table
	Idx  int // byte index within that value (after adjusting to write width)
}

// Mem is a sparse byte memory.
type Mem struct {
	Cells map[uint64]Cell
}

func New() *Mem { return &Mem{Cells: map[uint64]Cell{}} }

func (m *Mem) Clone() *Mem {
	c := New()
	for k, v := range m.Cells {
		c.Cells[k] = v
	}
	return c
}

// StoreVal records that bytes [addr, addr+w) hold value val (bytes 0..w-1).
func (m *Mem) StoreVal(addr uint64, w int, val int) {
	for i := 0; i < w; i++ {
		m.Cells[addr+uint64(i)] = Cell{Val: val, Idx: i}
	}
}

// StoreBytes records concrete bytes.
func (m *Mem) StoreBytes(addr uint64, bs []byte) {
	for i, b := range bs {
		m.Cells[addr+uint64(i)] = Cell{Conc: true, B: b}
	}
}

func (m *Mem) Has(addr uint64) bool { _, ok := m.Cells[addr]; return ok }

// HasAll reports whether every byte of [addr, addr+w) is stored.
func (m *Mem) HasAll(addr uint64, w int) bool {
	for i := 0; i < w; i++ {
		if !m.Has(addr + uint64(i)) {
			return false
		}
	}
	return true
}

// Range is a half-open address range [B, E).
type Range struct{ B, E uint64 }

// Missing returns the maximal unwritten sub-ranges of [addr, addr+w), sorted.
func (m *Mem) Missing(addr uint64, w int) []Range {
	var out []Range
	open := false
	var start uint64
	for i := 0; i < w; i++ {
		a := addr + uint64(i)
		if !m.Has(a) {
			if !open {
				open, start = true, a
			}
		} else if open {
			out = append(out, Range{start, a})
			open = false
		}
	}
	if open {
		out = append(out, Range{start, addr + uint64(w)})
	}
	return out
}

// Blocks returns the maximal runs of written addresses, sorted.
func (m *Mem) Blocks() []Range {
	addrs := make([]uint64, 0, len(m.Cells))
	for a := range m.Cells {
		addrs = append(addrs, a)
	}
	sort.Slice(addrs, func(i, j int) bool { return addrs[i] < addrs[j] })
	var out []Range
	for i, a := range addrs {
		if i > 0 && addrs[i-1]+1 == a {
			out[len(out)-1].E = a + 1
			continue
		}
		out = append(out, Range{a, a + 1})
	}
	return out
}

// Union returns a memory with upper's cells over lower's.
func Union(lower, upper *Mem) *Mem {
	u := lower.Clone()
	for k, v := range upper.Cells {
		u.Cells[k] = v
	}
	return u
}

// Conc is a plain concrete byte memory (emulation, memory view).
type Conc map[uint64]byte

func (c Conc) Blocks() []Range {
	addrs := make([]uint64, 0, len(c))
	for a := range c {
		addrs = append(addrs, a)
	}
	sort.Slice(addrs, func(i, j int) bool { return addrs[i] < addrs[j] })
	var out []Range
	for i, a := range addrs {
		if i > 0 && addrs[i-1]+1 == a {
			out[len(out)-1].E = a + 1
			continue
		}
		out = append(out, Range{a, a + 1})
	}
	return out
}
