// Package rvref is an independent RV64IMA + Zicsr interpreter written from the
// RISC-V unprivileged specification, with the tool's documented
// approximations (store-conditional always succeeds and writes 0,
// load-reserved is a plain load, fence/fence.i/ecall/ebreak change nothing),
// plus a small assembler and a random program generator. It shares no code
// with mltwist.
package rvref

import (
	"fmt"
	"math/bits"
)

// Memory is what the machine reads and writes.
type Memory interface {
	Read(addr uint64) byte
	Write(addr uint64, b byte)
}

// Access is one memory access of a step.
type Access struct {
	Addr uint64
	W    int
	Val  uint64 // little-endian value of the W bytes
}

// Info describes what one executed instruction did.
type Info struct {
	Name string
	Word uint32
	// Architectural source registers named by the instruction (x numbers,
	// x0 excluded) with their pre-values.
	SrcRegs map[int]uint64
	// Subset of SrcRegs whose value the result really depends on is not
	// computed; instead May/Must are derived by the caller from SrcRegs.
	Rd       int // destination x register (0 = none)
	RdVal    uint64
	CSR      int // CSR number, -1 if none
	CSROld   uint64
	CSRNew   uint64
	CSRWrite bool // CSR value architecturally written (may equal old)
	Loads    []Access
	Stores   []Access
	NextPC   uint64
	Jump     bool // control transfer instruction (pc written explicitly)
}

type Machine struct {
	X   [32]uint64
	CSR map[int]uint64
	PC  uint64
	Mem Memory
	// CSRInit supplies the initial value of a CSR never written/read yet.
	CSRInit func(n int) uint64
}

func (m *Machine) csr(n int) uint64 {
	if v, ok := m.CSR[n]; ok {
		return v
	}
	v := uint64(0)
	if m.CSRInit != nil {
		v = m.CSRInit(n)
	}
	m.CSR[n] = v
	return v
}

func (m *Machine) load(addr uint64, w int, info *Info) uint64 {
	var v uint64
	for i := 0; i < w; i++ {
		v |= uint64(m.Mem.Read(addr+uint64(i))) << (8 * uint(i))
	}
	info.Loads = append(info.Loads, Access{addr, w, v})
	return v
}

func (m *Machine) store(addr uint64, w int, v uint64, info *Info) {
	if w < 8 {
		v &= (uint64(1) << (8 * uint(w))) - 1
	}
	for i := 0; i < w; i++ {
		m.Mem.Write(addr+uint64(i), byte(v>>(8*uint(i))))
	}
	info.Stores = append(info.Stores, Access{addr, w, v})
}

func sext(v uint64, bitsN uint) uint64 {
	sh := 64 - bitsN
	return uint64(int64(v<<sh) >> sh)
}

func immI(w uint32) uint64 { return sext(uint64(w>>20), 12) }
func immS(w uint32) uint64 { return sext(uint64((w>>25)<<5|(w>>7)&0x1f), 12) }
func immB(w uint32) uint64 {
	v := (w>>31)<<12 | ((w>>7)&1)<<11 | ((w>>25)&0x3f)<<5 | ((w>>8)&0xf)<<1
	return sext(uint64(v), 13)
}
func immU(w uint32) uint64 { return sext(uint64(w&0xfffff000), 32) }
func immJ(w uint32) uint64 {
	v := (w>>31)<<20 | ((w>>12)&0xff)<<12 | ((w>>20)&1)<<11 | ((w>>21)&0x3ff)<<1
	return sext(uint64(v), 21)
}

func mulhu(a, b uint64) uint64 { hi, _ := bits.Mul64(a, b); return hi }
func mulh(a, b int64) uint64 {
	hi, _ := bits.Mul64(uint64(a), uint64(b))
	if a < 0 {
		hi -= uint64(b)
	}
	if b < 0 {
		hi -= uint64(a)
	}
	return hi
}
func mulhsu(a int64, b uint64) uint64 {
	hi, _ := bits.Mul64(uint64(a), b)
	if a < 0 {
		hi -= b
	}
	return hi
}

func div64(a, b int64) uint64 {
	switch {
	case b == 0:
		return ^uint64(0)
	case a == -1<<63 && b == -1:
		return uint64(a)
	}
	return uint64(a / b)
}
func rem64(a, b int64) uint64 {
	switch {
	case b == 0:
		return uint64(a)
	case a == -1<<63 && b == -1:
		return 0
	}
	return uint64(a % b)
}
func div32(a, b int32) uint64 {
	switch {
	case b == 0:
		return ^uint64(0)
	case a == -1<<31 && b == -1:
		return sext(uint64(uint32(a)), 32)
	}
	return sext(uint64(uint32(a/b)), 32)
}
func rem32(a, b int32) uint64 {
	switch {
	case b == 0:
		return sext(uint64(uint32(a)), 32)
	case a == -1<<31 && b == -1:
		return 0
	}
	return sext(uint64(uint32(a%b)), 32)
}

// Step decodes and executes one instruction word at m.PC.
func (m *Machine) Step(w uint32) (*Info, error) {
	info := &Info{Word: w, SrcRegs: map[int]uint64{}, CSR: -1}
	op := w & 0x7f
	rd := int((w >> 7) & 0x1f)
	f3 := (w >> 12) & 7
	rs1 := int((w >> 15) & 0x1f)
	rs2 := int((w >> 20) & 0x1f)
	f7 := w >> 25
	pc := m.PC
	next := pc + 4

	src := func(r int) uint64 {
		if r != 0 {
			info.SrcRegs[r] = m.X[r]
		}
		return m.X[r]
	}
	var rdVal uint64
	writeRd := false
	setRd := func(v uint64) { rdVal, writeRd = v, true }
	bad := func() (*Info, error) { return nil, fmt.Errorf("rvref: unsupported instruction word %#08x", w) }

	switch op {
	case 0x37:
		info.Name = "lui"
		setRd(immU(w))
	case 0x17:
		info.Name = "auipc"
		setRd(pc + immU(w))
	case 0x6f:
		info.Name = "jal"
		setRd(pc + 4)
		next = pc + immJ(w)
		info.Jump = true
	case 0x67:
		if f3 != 0 {
			return bad()
		}
		info.Name = "jalr"
		t := (src(rs1) + immI(w)) &^ 1
		setRd(pc + 4)
		next = t
		info.Jump = true
	case 0x63:
		a, b := src(rs1), src(rs2)
		var take bool
		switch f3 {
		case 0:
			info.Name, take = "beq", a == b
		case 1:
			info.Name, take = "bne", a != b
		case 4:
			info.Name, take = "blt", int64(a) < int64(b)
		case 5:
			info.Name, take = "bge", int64(a) >= int64(b)
		case 6:
			info.Name, take = "bltu", a < b
		case 7:
			info.Name, take = "bgeu", a >= b
		default:
			return bad()
		}
		info.Jump = true
		if take {
			next = pc + immB(w)
		}
	case 0x03:
		addr := src(rs1) + immI(w)
		switch f3 {
		case 0:
			info.Name = "lb"
			setRd(sext(m.load(addr, 1, info), 8))
		case 1:
			info.Name = "lh"
			setRd(sext(m.load(addr, 2, info), 16))
		case 2:
			info.Name = "lw"
			setRd(sext(m.load(addr, 4, info), 32))
		case 3:
			info.Name = "ld"
			setRd(m.load(addr, 8, info))
		case 4:
			info.Name = "lbu"
			setRd(m.load(addr, 1, info))
		case 5:
			info.Name = "lhu"
			setRd(m.load(addr, 2, info))
		case 6:
			info.Name = "lwu"
			setRd(m.load(addr, 4, info))
		default:
			return bad()
		}
	case 0x23:
		addr := src(rs1) + immS(w)
		v := src(rs2)
		switch f3 {
		case 0:
			info.Name = "sb"
			m.store(addr, 1, v, info)
		case 1:
			info.Name = "sh"
			m.store(addr, 2, v, info)
		case 2:
			info.Name = "sw"
			m.store(addr, 4, v, info)
		case 3:
			info.Name = "sd"
			m.store(addr, 8, v, info)
		default:
			return bad()
		}
	case 0x13:
		a := src(rs1)
		imm := immI(w)
		switch f3 {
		case 0:
			info.Name = "addi"
			setRd(a + imm)
		case 2:
			info.Name = "slti"
			setRd(b2u(int64(a) < int64(imm)))
		case 3:
			info.Name = "sltiu"
			setRd(b2u(a < imm))
		case 4:
			info.Name = "xori"
			setRd(a ^ imm)
		case 6:
			info.Name = "ori"
			setRd(a | imm)
		case 7:
			info.Name = "andi"
			setRd(a & imm)
		case 1:
			if w>>26 != 0 {
				return bad()
			}
			info.Name = "slli"
			setRd(a << ((w >> 20) & 0x3f))
		case 5:
			sh := (w >> 20) & 0x3f
			switch w >> 26 {
			case 0:
				info.Name = "srli"
				setRd(a >> sh)
			case 0x10:
				info.Name = "srai"
				setRd(uint64(int64(a) >> sh))
			default:
				return bad()
			}
		}
	case 0x1b:
		a := src(rs1)
		switch f3 {
		case 0:
			info.Name = "addiw"
			setRd(sext(uint64(uint32(a)+uint32(immI(w))), 32))
		case 1:
			if f7 != 0 {
				return bad()
			}
			info.Name = "slliw"
			setRd(sext(uint64(uint32(a)<<(rs2&31)), 32))
		case 5:
			switch f7 {
			case 0:
				info.Name = "srliw"
				setRd(sext(uint64(uint32(a)>>(uint(rs2)&31)), 32))
			case 0x20:
				info.Name = "sraiw"
				setRd(uint64(int64(int32(uint32(a)) >> (uint(rs2) & 31))))
			default:
				return bad()
			}
		default:
			return bad()
		}
	case 0x33:
		a, b := src(rs1), src(rs2)
		switch f7 {
		case 0:
			switch f3 {
			case 0:
				info.Name = "add"
				setRd(a + b)
			case 1:
				info.Name = "sll"
				setRd(a << (b & 63))
			case 2:
				info.Name = "slt"
				setRd(b2u(int64(a) < int64(b)))
			case 3:
				info.Name = "sltu"
				setRd(b2u(a < b))
			case 4:
				info.Name = "xor"
				setRd(a ^ b)
			case 5:
				info.Name = "srl"
				setRd(a >> (b & 63))
			case 6:
				info.Name = "or"
				setRd(a | b)
			case 7:
				info.Name = "and"
				setRd(a & b)
			}
		case 0x20:
			switch f3 {
			case 0:
				info.Name = "sub"
				setRd(a - b)
			case 5:
				info.Name = "sra"
				setRd(uint64(int64(a) >> (b & 63)))
			default:
				return bad()
			}
		case 1:
			switch f3 {
			case 0:
				info.Name = "mul"
				setRd(a * b)
			case 1:
				info.Name = "mulh"
				setRd(mulh(int64(a), int64(b)))
			case 2:
				info.Name = "mulhsu"
				setRd(mulhsu(int64(a), b))
			case 3:
				info.Name = "mulhu"
				setRd(mulhu(a, b))
			case 4:
				info.Name = "div"
				setRd(div64(int64(a), int64(b)))
			case 5:
				info.Name = "divu"
				if b == 0 {
					setRd(^uint64(0))
				} else {
					setRd(a / b)
				}
			case 6:
				info.Name = "rem"
				setRd(rem64(int64(a), int64(b)))
			case 7:
				info.Name = "remu"
				if b == 0 {
					setRd(a)
				} else {
					setRd(a % b)
				}
			}
		default:
			return bad()
		}
	case 0x3b:
		a, b := src(rs1), src(rs2)
		a32, b32 := uint32(a), uint32(b)
		switch f7 {
		case 0:
			switch f3 {
			case 0:
				info.Name = "addw"
				setRd(sext(uint64(a32+b32), 32))
			case 1:
				info.Name = "sllw"
				setRd(sext(uint64(a32<<(b32&31)), 32))
			case 5:
				info.Name = "srlw"
				setRd(sext(uint64(a32>>(b32&31)), 32))
			default:
				return bad()
			}
		case 0x20:
			switch f3 {
			case 0:
				info.Name = "subw"
				setRd(sext(uint64(a32-b32), 32))
			case 5:
				info.Name = "sraw"
				setRd(uint64(int64(int32(a32) >> (b32 & 31))))
			default:
				return bad()
			}
		case 1:
			switch f3 {
			case 0:
				info.Name = "mulw"
				setRd(sext(uint64(a32*b32), 32))
			case 4:
				info.Name = "divw"
				setRd(div32(int32(a32), int32(b32)))
			case 5:
				info.Name = "divuw"
				if b32 == 0 {
					setRd(^uint64(0))
				} else {
					setRd(sext(uint64(a32/b32), 32))
				}
			case 6:
				info.Name = "remw"
				setRd(rem32(int32(a32), int32(b32)))
			case 7:
				info.Name = "remuw"
				if b32 == 0 {
					setRd(sext(uint64(a32), 32))
				} else {
					setRd(sext(uint64(a32%b32), 32))
				}
			default:
				return bad()
			}
		default:
			return bad()
		}
	case 0x0f:
		switch f3 {
		case 0:
			info.Name = "fence"
		case 1:
			info.Name = "fence.i"
		default:
			return bad()
		}
	case 0x73:
		switch f3 {
		case 0:
			switch w {
			case 0x00000073:
				info.Name = "ecall"
			case 0x00100073:
				info.Name = "ebreak"
			default:
				return bad()
			}
		case 1, 2, 3, 5, 6, 7:
			n := int(w >> 20)
			info.CSR = n
			old := m.csr(n)
			info.CSROld = old
			var operand uint64
			if f3 >= 5 {
				operand = uint64(rs1) // zimm
			} else {
				operand = src(rs1)
			}
			nv := old
			switch f3 & 3 {
			case 1:
				info.Name = "csrrw"
				nv = operand
			case 2:
				info.Name = "csrrs"
				nv = old | operand
			case 3:
				info.Name = "csrrc"
				nv = old &^ operand
			}
			if f3 >= 5 {
				info.Name += "i"
			}
			info.CSRNew, info.CSRWrite = nv, true
			m.CSR[n] = nv
			setRd(old)
		default:
			return bad()
		}
	case 0x2f:
		w8 := f3 == 3
		if f3 != 2 && f3 != 3 {
			return bad()
		}
		width := 4
		suffix := ".w"
		if w8 {
			width, suffix = 8, ".d"
		}
		f5 := w >> 27
		addr := src(rs1)
		ext := func(v uint64) uint64 {
			if w8 {
				return v
			}
			return sext(v, 32)
		}
		switch f5 {
		case 2:
			if rs2 != 0 {
				return bad()
			}
			info.Name = "lr" + suffix
			setRd(ext(m.load(addr, width, info)))
		case 3:
			info.Name = "sc" + suffix
			m.store(addr, width, src(rs2), info)
			setRd(0)
		default:
			b := src(rs2)
			old := m.load(addr, width, info)
			a := old
			if !w8 {
				b = uint64(uint32(b))
			}
			var nv uint64
			lessS := func(x, y uint64) bool {
				if w8 {
					return int64(x) < int64(y)
				}
				return int32(uint32(x)) < int32(uint32(y))
			}
			switch f5 {
			case 1:
				info.Name, nv = "amoswap", b
			case 0:
				info.Name, nv = "amoadd", a+b
			case 4:
				info.Name, nv = "amoxor", a^b
			case 12:
				info.Name, nv = "amoand", a&b
			case 8:
				info.Name, nv = "amoor", a|b
			case 16:
				info.Name = "amomin"
				nv = a
				if lessS(b, a) {
					nv = b
				}
			case 20:
				info.Name = "amomax"
				nv = a
				if lessS(a, b) {
					nv = b
				}
			case 24:
				info.Name = "amominu"
				nv = a
				if b < a {
					nv = b
				}
			case 28:
				info.Name = "amomaxu"
				nv = a
				if a < b {
					nv = b
				}
			default:
				return bad()
			}
			info.Name += suffix
			m.store(addr, width, nv, info)
			setRd(ext(old))
		}
	default:
		return bad()
	}
	if info.Name == "" {
		return bad()
	}
	if writeRd && rd != 0 {
		m.X[rd] = rdVal
		info.Rd, info.RdVal = rd, rdVal
	}
	m.X[0] = 0
	m.PC = next
	info.NextPC = next
	return info, nil
}

func b2u(b bool) uint64 {
	if b {
		return 1
	}
	return 0
}
