package rvref

// Known-answer tests of the reference machine and its assembler. The machine
// words come from the RISC-V unprivileged specification / GNU as output, the
// expected results from the specification text (M extension corner cases,
// W-form sign extension, AMO semantics); none is derived from mltwist.

import "testing"

type mapMem map[uint64]byte

func (m mapMem) Read(a uint64) byte     { return m[a] }
func (m mapMem) Write(a uint64, b byte) { m[a] = b }

func TestEncodings(t *testing.T) {
	cases := []struct {
		name         string
		rd, rs1, rs2 int
		imm          int64
		word         uint32
	}{
		{"addi", 1, 0, 0, 1, 0x00100093},
		{"addi", 1, 1, 0, -1, 0xfff08093},
		{"add", 3, 1, 2, 0, 0x002081b3},
		{"sub", 3, 1, 2, 0, 0x402081b3},
		{"lui", 5, 0, 0, 0x12345, 0x123452b7},
		{"auipc", 5, 0, 0, 1, 0x00001297},
		{"jal", 1, 0, 0, 8, 0x008000ef},
		{"jal", 0, 0, 0, -4, 0xffdff06f},
		{"jalr", 1, 2, 0, 4, 0x004100e7},
		{"beq", 0, 1, 2, 8, 0x00208463},
		{"bne", 0, 1, 2, -8, 0xfe209ce3},
		{"sd", 0, 1, 2, 8, 0x0020b423},
		{"ld", 3, 1, 0, 8, 0x0080b183},
		{"lbu", 3, 1, 0, -1, 0xfff0c183},
		{"sb", 0, 1, 2, -1, 0xfe208fa3},
		{"mul", 3, 1, 2, 0, 0x022081b3},
		{"div", 3, 1, 2, 0, 0x0220c1b3},
		{"remuw", 3, 1, 2, 0, 0x0220f1bb},
		{"srai", 3, 1, 0, 3, 0x4030d193},
		{"slli", 3, 1, 0, 63, 0x03f09193},
		{"sraiw", 3, 1, 0, 31, 0x41f0d19b},
		{"addiw", 3, 1, 0, 1, 0x0010819b},
		{"amoadd.w", 3, 1, 2, 0, 0x0020a1af},
		{"amoswap.d", 3, 1, 2, 3, 0x0e20b1af},
		{"csrrw", 3, 1, 0, 0x340, 0x340091f3},
		{"ecall", 0, 0, 0, 0, 0x00000073},
		{"ebreak", 0, 0, 0, 0, 0x00100073},
	}
	for _, c := range cases {
		if got := Enc(c.name, c.rd, c.rs1, c.rs2, c.imm); got != c.word {
			t.Errorf("%s: encoded %#08x, want %#08x", Text(c.name, c.rd, c.rs1, c.rs2, c.imm), got, c.word)
		}
	}
}

func run1(t *testing.T, m *Machine, name string, rd, rs1, rs2 int, imm int64) *Info {
	t.Helper()
	info, err := m.Step(Enc(name, rd, rs1, rs2, imm))
	if err != nil {
		t.Fatalf("%s: %v", name, err)
	}
	m.PC = info.NextPC
	return info
}

func TestArithmeticCorners(t *testing.T) {
	const min64 = uint64(1) << 63
	all := ^uint64(0)
	cases := []struct {
		name string
		a, b uint64
		want uint64
	}{
		{"div", 7, 0, all}, {"divu", 7, 0, all}, {"rem", 7, 0, 7}, {"remu", 7, 0, 7},
		{"div", min64, all, min64}, {"rem", min64, all, 0},
		{"div", uint64(0xfffffffffffffff9), 2, uint64(0xfffffffffffffffd)}, // -7/2 = -3
		{"rem", uint64(0xfffffffffffffff9), 2, all},                       // -7%2 = -1
		{"divw", 0x80000000, all, 0xffffffff80000000}, {"remw", 0x80000000, all, 0},
		{"divw", 5, 0, all}, {"divuw", 5, 0, all}, {"remw", 0xfffffffb, 0, 0xfffffffffffffffb}, {"remuw", 0xfffffffb, 0, 0xfffffffffffffffb},
		{"divuw", 0xffffffff, 1, all}, // result sign-extended from bit 31
		{"mulh", all, all, 0}, {"mulhu", all, all, all - 1}, {"mulhsu", all, all, all},
		{"mulh", min64, min64, 1 << 62}, {"mulhsu", min64, 2, all}, {"mulhsu", 2, all, 1},
		{"mul", 1 << 32, 1 << 32, 0}, {"mulw", 0x10000, 0x8000, 0xffffffff80000000},
		{"sll", 1, 64 + 3, 8}, {"srl", min64, 63, 1}, {"sra", min64, 63, all},
		{"sllw", 1, 32 + 31, 0xffffffff80000000}, {"srlw", 0x80000000, 31, 1}, {"sraw", 0x80000000, 31, all},
		{"srlw", 0xffffffff00000001, 0, 1},
		{"addw", 0x7fffffff, 1, 0xffffffff80000000}, {"subw", 0, 1, all},
		{"slt", all, 0, 1}, {"sltu", all, 0, 0}, {"slt", 0, all, 0}, {"sltu", 0, all, 1},
		{"xor", 0xf0, 0xff, 0x0f}, {"and", 0xf0, 0x3c, 0x30}, {"or", 0xf0, 0x0f, 0xff},
	}
	for _, c := range cases {
		m := &Machine{Mem: mapMem{}, CSR: map[int]uint64{}}
		m.X[1], m.X[2] = c.a, c.b
		run1(t, m, c.name, 3, 1, 2, 0)
		if m.X[3] != c.want {
			t.Errorf("%s %#x, %#x = %#x, want %#x", c.name, c.a, c.b, m.X[3], c.want)
		}
	}
}

func TestImmediatesAndControl(t *testing.T) {
	m := &Machine{Mem: mapMem{}, CSR: map[int]uint64{}, PC: 0x1000}
	run1(t, m, "lui", 5, 0, 0, 0x80000)
	if m.X[5] != 0xffffffff80000000 {
		t.Errorf("lui sign extension: %#x", m.X[5])
	}
	run1(t, m, "auipc", 6, 0, 0, 0xfffff) // pc 0x1004 + sext(0xfffff000)
	if m.X[6] != 0x4 {
		t.Errorf("auipc: %#x", m.X[6])
	}
	m.X[1] = 0x7fffffff
	run1(t, m, "addiw", 2, 1, 0, 1)
	if m.X[2] != 0xffffffff80000000 {
		t.Errorf("addiw: %#x", m.X[2])
	}
	run1(t, m, "sltiu", 2, 0, 0, -1) // 0 <u 0xffff...ffff
	if m.X[2] != 1 {
		t.Errorf("sltiu: %#x", m.X[2])
	}
	m.X[1] = 1 << 63
	run1(t, m, "srai", 2, 1, 0, 63)
	if m.X[2] != ^uint64(0) {
		t.Errorf("srai: %#x", m.X[2])
	}
	m.X[1] = 0x80000000
	run1(t, m, "sraiw", 2, 1, 0, 4)
	if m.X[2] != 0xfffffffff8000000 {
		t.Errorf("sraiw: %#x", m.X[2])
	}
	run1(t, m, "addi", 0, 0, 0, 5)
	if m.X[0] != 0 {
		t.Errorf("x0 written")
	}
	// jal / jalr
	m.PC = 0x2000
	i := run1(t, m, "jal", 1, 0, 0, -16)
	if m.X[1] != 0x2004 || m.PC != 0x1ff0 || !i.Jump {
		t.Errorf("jal: ra=%#x pc=%#x", m.X[1], m.PC)
	}
	m.X[7] = 0x3003
	run1(t, m, "jalr", 7, 7, 0, 4) // rd == rs1: target from the old value, bit 0 cleared
	if m.X[7] != 0x1ff4 || m.PC != 0x3006 {
		t.Errorf("jalr: rd=%#x pc=%#x", m.X[7], m.PC)
	}
	// branches
	m.X[1], m.X[2] = ^uint64(0), 1
	for _, c := range []struct {
		n     string
		taken bool
	}{{"beq", false}, {"bne", true}, {"blt", true}, {"bge", false}, {"bltu", false}, {"bgeu", true}} {
		m.PC = 0x4000
		run1(t, m, c.n, 0, 1, 2, 0x40)
		want := uint64(0x4004)
		if c.taken {
			want = 0x4040
		}
		if m.PC != want {
			t.Errorf("%s: pc=%#x want %#x", c.n, m.PC, want)
		}
	}
}

func TestMemoryAndAtomics(t *testing.T) {
	mem := mapMem{}
	m := &Machine{Mem: mem, CSR: map[int]uint64{}}
	m.X[1], m.X[2] = 0x100, 0x8877665544332211
	run1(t, m, "sd", 0, 1, 2, 8)
	for k := 0; k < 8; k++ {
		if mem[0x108+uint64(k)] != byte(0x11*(k+1)) {
			t.Fatalf("sd not little endian at +%d: %#x", k, mem[0x108+uint64(k)])
		}
	}
	mem[0x10f] = 0x88
	for _, c := range []struct {
		n    string
		off  int64
		want uint64
	}{
		{"lb", 15, 0xffffffffffffff88}, {"lbu", 15, 0x88}, {"lh", 14, 0xffffffffffff8877}, {"lhu", 14, 0x8877},
		{"lw", 12, 0xffffffff88776655}, {"lwu", 12, 0x88776655}, {"ld", 8, 0x8877665544332211}, {"lw", 8, 0x44332211},
	} {
		run1(t, m, c.n, 3, 1, 0, c.off)
		if m.X[3] != c.want {
			t.Errorf("%s: %#x want %#x", c.n, m.X[3], c.want)
		}
	}
	m.X[2] = 0xaabbccdd
	run1(t, m, "sh", 0, 1, 2, 0)
	if mem[0x100] != 0xdd || mem[0x101] != 0xcc || mem[0x102] != 0 {
		t.Errorf("sh wrote %#x %#x %#x", mem[0x100], mem[0x101], mem[0x102])
	}
	// negative offset wraps modulo 2^64
	m.X[4] = 4
	run1(t, m, "sb", 0, 4, 2, -8)
	if mem[0xfffffffffffffffc] != 0xdd {
		t.Errorf("sb with wrapping address")
	}
	// atomics: rd = sign-extended old value, memory = op(old, rs2)
	type amo struct {
		n               string
		old, src        uint64
		wantRd, wantMem uint64
	}
	for _, c := range []amo{
		{"amoadd.w", 0xffffffff, 2, ^uint64(0), 1},
		{"amoswap.w", 0x80000000, 7, 0xffffffff80000000, 7},
		{"amomin.w", 0xffffffff, 1, ^uint64(0), 0xffffffff},
		{"amomax.w", 0xffffffff, 1, ^uint64(0), 1},
		{"amominu.w", 0xffffffff, 1, ^uint64(0), 1},
		{"amomaxu.w", 0xffffffff, 1, ^uint64(0), 0xffffffff},
		{"amoxor.w", 0xf0, 0xff, 0xf0, 0x0f},
		{"amoand.w", 0xf0, 0x3c, 0xf0, 0x30},
		{"amoor.w", 0xf0, 0x0f, 0xf0, 0xff},
		{"amoadd.d", ^uint64(0), 2, ^uint64(0), 1},
		{"amomin.d", ^uint64(0), 1, ^uint64(0), ^uint64(0)},
		{"amomaxu.d", ^uint64(0), 1, ^uint64(0), ^uint64(0)},
		{"amomax.d", ^uint64(0), 1, ^uint64(0), 1},
		{"amominu.d", ^uint64(0), 1, ^uint64(0), 1},
	} {
		w := 4
		if c.n[len(c.n)-1] == 'd' {
			w = 8
		}
		for k := 0; k < 8; k++ {
			mem[0x200+uint64(k)] = 0
		}
		for k := 0; k < w; k++ {
			mem[0x200+uint64(k)] = byte(c.old >> (8 * k))
		}
		m.X[1], m.X[2] = 0x200, c.src
		run1(t, m, c.n, 3, 1, 2, 0)
		var got uint64
		for k := 0; k < w; k++ {
			got |= uint64(mem[0x200+uint64(k)]) << (8 * k)
		}
		if m.X[3] != c.wantRd || got != c.wantMem {
			t.Errorf("%s old=%#x src=%#x: rd=%#x mem=%#x, want rd=%#x mem=%#x", c.n, c.old, c.src, m.X[3], got, c.wantRd, c.wantMem)
		}
		if w == 4 && mem[0x204] != 0 {
			t.Errorf("%s wrote past its word", c.n)
		}
	}
}

func TestCSR(t *testing.T) {
	m := &Machine{Mem: mapMem{}, CSR: map[int]uint64{0x340: 0xf0}}
	m.X[1] = 0x0f
	run1(t, m, "csrrs", 3, 1, 0, 0x340)
	if m.X[3] != 0xf0 || m.CSR[0x340] != 0xff {
		t.Errorf("csrrs: rd=%#x csr=%#x", m.X[3], m.CSR[0x340])
	}
	run1(t, m, "csrrc", 3, 1, 0, 0x340)
	if m.X[3] != 0xff || m.CSR[0x340] != 0xf0 {
		t.Errorf("csrrc: rd=%#x csr=%#x", m.X[3], m.CSR[0x340])
	}
	run1(t, m, "csrrw", 3, 1, 0, 0x340)
	if m.X[3] != 0xf0 || m.CSR[0x340] != 0x0f {
		t.Errorf("csrrw: rd=%#x csr=%#x", m.X[3], m.CSR[0x340])
	}
	run1(t, m, "csrrwi", 3, 31, 0, 0x340) // zimm = 31
	if m.X[3] != 0x0f || m.CSR[0x340] != 31 {
		t.Errorf("csrrwi: rd=%#x csr=%#x", m.X[3], m.CSR[0x340])
	}
	run1(t, m, "csrrsi", 3, 0, 0, 0x340) // zimm 0: read only
	if m.X[3] != 31 || m.CSR[0x340] != 31 {
		t.Errorf("csrrsi: rd=%#x csr=%#x", m.X[3], m.CSR[0x340])
	}
}
