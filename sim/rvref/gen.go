package rvref

import (
	"mltwist/internal/consoleui/verifsim/core"
)

// ProgIns is one assembled instruction of a generated program.
type ProgIns struct {
	Addr uint64 `json:"addr"`
	Word uint32 `json:"word"`
	Name string `json:"name"`
	Text string `json:"text"`
}

// ProgOpts are the swarm knobs of the program generator.
type ProgOpts struct {
	Regs       int   // size of the general register pool (x1..)
	PtrRegs    []int // registers used as memory bases (default: the pool)
	JumpPct    int   // share of control-transfer instructions
	MemPct     int   // share of memory instructions
	GapPct     int   // chance of an address gap before an instruction
	CSRPct     int
	SysPct     int
	NoBadJumps bool // (kept for documentation: constant targets are instruction starts unless BadJumpPct > 0)
	BadJumpPct int  // share of jumps/branches whose constant target is no instruction start
	CSRs       []int
	// Weights of ALU sub-classes (0 = default).
	WImm, WReg, WShift, WW, WMul, WUpper int
	FavAMO     string // if set, half of the atomics of the program are this mnemonic
}

func immBoundary(r *core.Rand) int64 {
	switch r.Intn(8) {
	case 0:
		return -2048
	case 1:
		return 2047
	case 2:
		return -1
	case 3:
		return 0
	case 4:
		return 1
	case 5:
		return int64(r.Range(-16, 16))
	default:
		return int64(r.Range(-2048, 2047))
	}
}

// RandomProgram assembles n instructions starting at base.
func RandomProgram(r *core.Rand, base uint64, n int, o ProgOpts) []ProgIns {
	if o.Regs < 1 {
		o.Regs = 3
	}
	pool := make([]int, 0, o.Regs)
	for i := 0; i < o.Regs; i++ {
		pool = append(pool, 1+i)
	}
	// occasionally use high registers too
	if r.Chance(1, 3) {
		pool = append(pool, 31)
	}
	ptr := o.PtrRegs
	if len(ptr) == 0 {
		ptr = pool
	}
	csrs := o.CSRs
	if len(csrs) == 0 {
		csrs = []int{0x001, 0x340, 0x7ff, 0x800, 0xc00, 0xfff}
	}
	def := func(v, d int) int {
		if v == 0 {
			return d
		}
		return v
	}
	wImm, wReg, wShift, wW, wMul, wUp := def(o.WImm, 6), def(o.WReg, 6), def(o.WShift, 3), def(o.WW, 4), def(o.WMul, 4), def(o.WUpper, 1)

	reg := func() int {
		if r.Chance(1, 12) {
			return 0
		}
		return pool[r.Intn(len(pool))]
	}
	dst := func() int {
		if r.Chance(1, 15) {
			return 0
		}
		return pool[r.Intn(len(pool))]
	}

	addrs := make([]uint64, n)
	a := base
	for i := 0; i < n; i++ {
		if i > 0 && r.Intn(100) < o.GapPct {
			a += uint64(4 * r.Range(1, 4))
		}
		addrs[i] = a
		a += 4
	}

	out := make([]ProgIns, 0, n)
	emit := func(i int, name string, rd, rs1, rs2 int, imm int64) {
		out = append(out, ProgIns{Addr: addrs[i], Word: Enc(name, rd, rs1, rs2, imm), Name: name, Text: Text(name, rd, rs1, rs2, imm)})
	}
	pick := func(names []string) string { return names[r.Intn(len(names))] }

	for i := 0; i < n; i++ {
		x := r.Intn(100)
		switch {
		case x < o.JumpPct:
			j := r.Intn(n)
			if r.Chance(1, 4) && i+1 < n && addrs[i+1] == addrs[i]+4 {
				j = i + 1 // branch / jump to the next instruction
			}
			off := int64(addrs[j]) - int64(addrs[i])
			if o.BadJumpPct > 0 && r.Intn(100) < o.BadJumpPct {
				// a constant target that is no instruction start: the middle
				// of an instruction, just behind the code, far away
				switch r.Intn(4) {
				case 0, 1:
					off += 2
				case 2: // just behind the code / in the middle of its last instruction
					off = int64(addrs[n-1]) + int64(2+2*r.Intn(2)) - int64(addrs[i])
				default:
					off = int64(2 * r.Range(-1000, 1000))
				}
			}
			switch r.Intn(5) {
			case 0:
				emit(i, "jal", dst(), 0, 0, off)
			case 1:
				emit(i, "jalr", dst(), ptr[r.Intn(len(ptr))], 0, int64(r.Range(-4, 8)))
			default:
				emit(i, pick(Names("B")), 0, reg(), reg(), off)
			}
		case x < o.JumpPct+o.MemPct:
			p := ptr[r.Intn(len(ptr))]
			off := int64(r.Range(-8, 24))
			if r.Chance(1, 10) {
				off = immBoundary(r)
			}
			// the value register is now and then the address register itself
			// (the pointer is stored / combined at its own address), and the
			// destination now and then overwrites the pointer
			val := func() int {
				if r.Chance(1, 8) {
					return p
				}
				return reg()
			}
			mdst := func() int {
				if r.Chance(1, 20) {
					return p
				}
				return dst()
			}
			switch r.Intn(10) {
			case 0, 1, 2, 3:
				emit(i, pick([]string{"lb", "lh", "lw", "ld", "lbu", "lhu", "lwu"}), mdst(), p, 0, off)
			case 4, 5, 6, 7:
				emit(i, pick([]string{"sb", "sh", "sw", "sd"}), 0, p, val(), off)
			case 8:
				name := pick(Names("AMO"))
				if o.FavAMO != "" && r.Bool() {
					name = o.FavAMO // swarm: this program dwells on one atomic form
				}
				emit(i, name, mdst(), p, val(), int64(r.Intn(4)))
			default:
				emit(i, pick(Names("LR")), mdst(), p, 0, int64(r.Intn(4)))
			}
		case x < o.JumpPct+o.MemPct+o.CSRPct:
			c := int64(csrs[r.Intn(len(csrs))])
			if r.Bool() {
				emit(i, pick(Names("CSR")), dst(), reg(), 0, c)
			} else {
				emit(i, pick(Names("CSRI")), dst(), r.Intn(32), 0, c)
			}
		case x < o.JumpPct+o.MemPct+o.CSRPct+o.SysPct:
			emit(i, pick(Names("SYS")), 0, 0, 0, 0)
		default:
			switch r.Weighted([]int{wImm, wReg, wShift, wW, wMul, wUp}) {
			case 0:
				emit(i, pick([]string{"addi", "slti", "sltiu", "xori", "ori", "andi"}), dst(), reg(), 0, immBoundary(r))
			case 1:
				emit(i, pick([]string{"add", "sub", "sll", "slt", "sltu", "xor", "srl", "sra", "or", "and"}), dst(), reg(), reg(), 0)
			case 2:
				sh := int64(r.Intn(64))
				if r.Chance(1, 3) {
					sh = []int64{0, 1, 31, 32, 33, 63}[r.Intn(6)]
				}
				emit(i, pick(Names("SH")), dst(), reg(), 0, sh)
			case 3:
				switch r.Intn(3) {
				case 0:
					emit(i, "addiw", dst(), reg(), 0, immBoundary(r))
				case 1:
					emit(i, pick(Names("SHW")), dst(), reg(), 0, int64([]int{0, 1, 15, 31, r.Intn(32)}[r.Intn(5)]))
				default:
					emit(i, pick([]string{"addw", "subw", "sllw", "srlw", "sraw"}), dst(), reg(), reg(), 0)
				}
			case 4:
				emit(i, pick([]string{"mul", "mulh", "mulhsu", "mulhu", "div", "divu", "rem", "remu", "mulw", "divw", "divuw", "remw", "remuw"}), dst(), reg(), reg(), 0)
			default:
				imm := int64(r.Intn(1 << 20))
				if r.Chance(1, 3) {
					imm = []int64{0, 1, 0x7ffff, 0x80000, 0xfffff}[r.Intn(5)]
				}
				emit(i, pick([]string{"lui", "auipc"}), dst(), 0, 0, imm)
			}
		}
	}
	return out
}
