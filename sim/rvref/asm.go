package rvref

import "fmt"

// Encoders. Immediates are given as signed values and checked.

func rType(f7, rs2, rs1, f3, rd, op uint32) uint32 {
	return f7<<25 | rs2<<20 | rs1<<15 | f3<<12 | rd<<7 | op
}

func iType(imm int64, rs1, f3, rd, op uint32) uint32 {
	if imm < -2048 || imm > 2047 {
		panic(fmt.Sprintf("I immediate out of range: %d", imm))
	}
	return uint32(imm&0xfff)<<20 | rs1<<15 | f3<<12 | rd<<7 | op
}

func sType(imm int64, rs2, rs1, f3, op uint32) uint32 {
	if imm < -2048 || imm > 2047 {
		panic(fmt.Sprintf("S immediate out of range: %d", imm))
	}
	u := uint32(imm & 0xfff)
	return (u>>5)<<25 | rs2<<20 | rs1<<15 | f3<<12 | (u&0x1f)<<7 | op
}

func bType(imm int64, rs2, rs1, f3 uint32) uint32 {
	if imm < -4096 || imm > 4094 || imm&1 != 0 {
		panic(fmt.Sprintf("B immediate out of range: %d", imm))
	}
	u := uint32(imm & 0x1fff)
	return (u>>12)<<31 | ((u>>5)&0x3f)<<25 | rs2<<20 | rs1<<15 | f3<<12 | ((u>>1)&0xf)<<8 | ((u>>11)&1)<<7 | 0x63
}

func uType(imm20 uint32, rd, op uint32) uint32 { return (imm20&0xfffff)<<12 | rd<<7 | op }

func jType(imm int64, rd uint32) uint32 {
	if imm < -(1<<20) || imm >= 1<<20 || imm&1 != 0 {
		panic(fmt.Sprintf("J immediate out of range: %d", imm))
	}
	u := uint32(imm & 0x1fffff)
	return (u>>20)<<31 | ((u>>1)&0x3ff)<<21 | ((u>>11)&1)<<20 | ((u>>12)&0xff)<<12 | rd<<7 | 0x6f
}

type opDesc struct {
	kind string // R I S B U J SH (shift-imm 64) SHW (shift-imm 32) AMO LR CSR CSRI SYS
	op   uint32
	f3   uint32
	f7   uint32 // or funct5 for AMO, funct6<<? for shifts
}

var ops = map[string]opDesc{
	"lui": {"U", 0x37, 0, 0}, "auipc": {"U", 0x17, 0, 0},
	"jal": {"J", 0x6f, 0, 0}, "jalr": {"I", 0x67, 0, 0},
	"beq": {"B", 0x63, 0, 0}, "bne": {"B", 0x63, 1, 0}, "blt": {"B", 0x63, 4, 0},
	"bge": {"B", 0x63, 5, 0}, "bltu": {"B", 0x63, 6, 0}, "bgeu": {"B", 0x63, 7, 0},
	"lb": {"I", 0x03, 0, 0}, "lh": {"I", 0x03, 1, 0}, "lw": {"I", 0x03, 2, 0}, "ld": {"I", 0x03, 3, 0},
	"lbu": {"I", 0x03, 4, 0}, "lhu": {"I", 0x03, 5, 0}, "lwu": {"I", 0x03, 6, 0},
	"sb": {"S", 0x23, 0, 0}, "sh": {"S", 0x23, 1, 0}, "sw": {"S", 0x23, 2, 0}, "sd": {"S", 0x23, 3, 0},
	"addi": {"I", 0x13, 0, 0}, "slti": {"I", 0x13, 2, 0}, "sltiu": {"I", 0x13, 3, 0},
	"xori": {"I", 0x13, 4, 0}, "ori": {"I", 0x13, 6, 0}, "andi": {"I", 0x13, 7, 0},
	"slli": {"SH", 0x13, 1, 0}, "srli": {"SH", 0x13, 5, 0}, "srai": {"SH", 0x13, 5, 0x10},
	"add": {"R", 0x33, 0, 0}, "sub": {"R", 0x33, 0, 0x20}, "sll": {"R", 0x33, 1, 0}, "slt": {"R", 0x33, 2, 0},
	"sltu": {"R", 0x33, 3, 0}, "xor": {"R", 0x33, 4, 0}, "srl": {"R", 0x33, 5, 0}, "sra": {"R", 0x33, 5, 0x20},
	"or": {"R", 0x33, 6, 0}, "and": {"R", 0x33, 7, 0},
	"addiw": {"I", 0x1b, 0, 0}, "slliw": {"SHW", 0x1b, 1, 0}, "srliw": {"SHW", 0x1b, 5, 0}, "sraiw": {"SHW", 0x1b, 5, 0x20},
	"addw": {"R", 0x3b, 0, 0}, "subw": {"R", 0x3b, 0, 0x20}, "sllw": {"R", 0x3b, 1, 0}, "srlw": {"R", 0x3b, 5, 0}, "sraw": {"R", 0x3b, 5, 0x20},
	"mul": {"R", 0x33, 0, 1}, "mulh": {"R", 0x33, 1, 1}, "mulhsu": {"R", 0x33, 2, 1}, "mulhu": {"R", 0x33, 3, 1},
	"div": {"R", 0x33, 4, 1}, "divu": {"R", 0x33, 5, 1}, "rem": {"R", 0x33, 6, 1}, "remu": {"R", 0x33, 7, 1},
	"mulw": {"R", 0x3b, 0, 1}, "divw": {"R", 0x3b, 4, 1}, "divuw": {"R", 0x3b, 5, 1}, "remw": {"R", 0x3b, 6, 1}, "remuw": {"R", 0x3b, 7, 1},
	"lr.w": {"LR", 0x2f, 2, 2}, "lr.d": {"LR", 0x2f, 3, 2}, "sc.w": {"AMO", 0x2f, 2, 3}, "sc.d": {"AMO", 0x2f, 3, 3},
	"amoswap.w": {"AMO", 0x2f, 2, 1}, "amoadd.w": {"AMO", 0x2f, 2, 0}, "amoxor.w": {"AMO", 0x2f, 2, 4}, "amoand.w": {"AMO", 0x2f, 2, 12},
	"amoor.w": {"AMO", 0x2f, 2, 8}, "amomin.w": {"AMO", 0x2f, 2, 16}, "amomax.w": {"AMO", 0x2f, 2, 20}, "amominu.w": {"AMO", 0x2f, 2, 24}, "amomaxu.w": {"AMO", 0x2f, 2, 28},
	"amoswap.d": {"AMO", 0x2f, 3, 1}, "amoadd.d": {"AMO", 0x2f, 3, 0}, "amoxor.d": {"AMO", 0x2f, 3, 4}, "amoand.d": {"AMO", 0x2f, 3, 12},
	"amoor.d": {"AMO", 0x2f, 3, 8}, "amomin.d": {"AMO", 0x2f, 3, 16}, "amomax.d": {"AMO", 0x2f, 3, 20}, "amominu.d": {"AMO", 0x2f, 3, 24}, "amomaxu.d": {"AMO", 0x2f, 3, 28},
	"csrrw": {"CSR", 0x73, 1, 0}, "csrrs": {"CSR", 0x73, 2, 0}, "csrrc": {"CSR", 0x73, 3, 0},
	"csrrwi": {"CSRI", 0x73, 5, 0}, "csrrsi": {"CSRI", 0x73, 6, 0}, "csrrci": {"CSRI", 0x73, 7, 0},
	"fence": {"SYS", 0x0ff0000f, 0, 0}, "fence.i": {"SYS", 0x0000100f, 0, 0},
	"ecall": {"SYS", 0x00000073, 0, 0}, "ebreak": {"SYS", 0x00100073, 0, 0},
}

// Kind returns the encoding kind of a mnemonic ("" if unknown).
func Kind(name string) string { return ops[name].kind }

// Names returns all mnemonics of a kind set, in a fixed order.
func Names(kinds ...string) []string {
	var out []string
	for _, n := range allNames {
		for _, k := range kinds {
			if ops[n].kind == k {
				out = append(out, n)
			}
		}
	}
	return out
}

var allNames = []string{
	"lui", "auipc", "jal", "jalr", "beq", "bne", "blt", "bge", "bltu", "bgeu",
	"lb", "lh", "lw", "ld", "lbu", "lhu", "lwu", "sb", "sh", "sw", "sd",
	"addi", "slti", "sltiu", "xori", "ori", "andi", "slli", "srli", "srai",
	"add", "sub", "sll", "slt", "sltu", "xor", "srl", "sra", "or", "and",
	"addiw", "slliw", "srliw", "sraiw", "addw", "subw", "sllw", "srlw", "sraw",
	"mul", "mulh", "mulhsu", "mulhu", "div", "divu", "rem", "remu", "mulw", "divw", "divuw", "remw", "remuw",
	"lr.w", "lr.d", "sc.w", "sc.d",
	"amoswap.w", "amoadd.w", "amoxor.w", "amoand.w", "amoor.w", "amomin.w", "amomax.w", "amominu.w", "amomaxu.w",
	"amoswap.d", "amoadd.d", "amoxor.d", "amoand.d", "amoor.d", "amomin.d", "amomax.d", "amominu.d", "amomaxu.d",
	"csrrw", "csrrs", "csrrc", "csrrwi", "csrrsi", "csrrci", "fence", "fence.i", "ecall", "ebreak",
}

// Enc assembles one instruction. imm is the immediate / shift amount / CSR
// number (CSR kinds: imm = csr number, rs1 = source register or zimm) /
// upper-immediate 20-bit value (U) / byte offset (B, J).
func Enc(name string, rd, rs1, rs2 int, imm int64) uint32 {
	d, ok := ops[name]
	if !ok {
		panic("unknown mnemonic " + name)
	}
	RD, RS1, RS2 := uint32(rd&31), uint32(rs1&31), uint32(rs2&31)
	switch d.kind {
	case "R":
		return rType(d.f7, RS2, RS1, d.f3, RD, d.op)
	case "I":
		return iType(imm, RS1, d.f3, RD, d.op)
	case "S":
		return sType(imm, RS2, RS1, d.f3, d.op)
	case "B":
		return bType(imm, RS2, RS1, d.f3)
	case "U":
		return uType(uint32(imm), RD, d.op)
	case "J":
		return jType(imm, RD)
	case "SH":
		return d.f7<<26 | uint32(imm&63)<<20 | RS1<<15 | d.f3<<12 | RD<<7 | d.op
	case "SHW":
		return d.f7<<25 | uint32(imm&31)<<20 | RS1<<15 | d.f3<<12 | RD<<7 | d.op
	case "AMO":
		aqrl := uint32(imm & 3)
		return d.f7<<27 | aqrl<<25 | RS2<<20 | RS1<<15 | d.f3<<12 | RD<<7 | d.op
	case "LR":
		aqrl := uint32(imm & 3)
		return d.f7<<27 | aqrl<<25 | RS1<<15 | d.f3<<12 | RD<<7 | d.op
	case "CSR", "CSRI":
		return uint32(imm&0xfff)<<20 | RS1<<15 | d.f3<<12 | RD<<7 | d.op
	case "SYS":
		return d.op
	}
	panic("bad kind")
}

// Text renders an instruction for humans (trace readability only).
func Text(name string, rd, rs1, rs2 int, imm int64) string {
	switch ops[name].kind {
	case "R":
		return fmt.Sprintf("%s x%d, x%d, x%d", name, rd, rs1, rs2)
	case "I", "SH", "SHW":
		if ops[name].op == 0x03 {
			return fmt.Sprintf("%s x%d, %d(x%d)", name, rd, imm, rs1)
		}
		return fmt.Sprintf("%s x%d, x%d, %d", name, rd, rs1, imm)
	case "S":
		return fmt.Sprintf("%s x%d, %d(x%d)", name, rs2, imm, rs1)
	case "B":
		return fmt.Sprintf("%s x%d, x%d, %+d", name, rs1, rs2, imm)
	case "U":
		return fmt.Sprintf("%s x%d, %#x", name, rd, imm)
	case "J":
		return fmt.Sprintf("%s x%d, %+d", name, rd, imm)
	case "AMO":
		return fmt.Sprintf("%s x%d, x%d, (x%d)", name, rd, rs2, rs1)
	case "LR":
		return fmt.Sprintf("%s x%d, (x%d)", name, rd, rs1)
	case "CSR":
		return fmt.Sprintf("%s x%d, csr%#x, x%d", name, rd, imm, rs1)
	case "CSRI":
		return fmt.Sprintf("%s x%d, csr%#x, %d", name, rd, imm, rs1)
	}
	return name
}
