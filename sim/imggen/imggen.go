// Package imggen turns an assembled program into a plain, well-formed RV64
// executable image description (for the engines that need a loadable program
// rather than a hostile file) and loads it through the real pipeline.
package imggen

import (
	"encoding/hex"
	"fmt"
	"mltwist/internal/consoleui/verifsim/elfref"
	"mltwist/internal/consoleui/verifsim/rvref"
	"mltwist/internal/deps"
	"mltwist/internal/elf"
	"mltwist/internal/parser"
	"mltwist/internal/riscv"
	"mltwist/internal/state/memory"
	"os"
	"path/filepath"
)

// Exec builds an ET_EXEC image: one executable section per contiguous run of
// instructions, one PT_LOAD segment covering each section, optionally a data
// segment (file bytes then zero-filled tail).
func Exec(prog []rvref.ProgIns, entry uint64, dataAddr uint64, data []byte, bss int) *elfref.Desc {
	return ExecSegs(prog, entry, []DataSeg{{Addr: dataAddr, Data: data, Bss: bss}})
}

// DataSeg is one non-executable loadable segment: file bytes, then Bss zeros.
type DataSeg struct {
	Addr uint64
	Data []byte
	Bss  int
	// Empty: a loadable segment of no bytes at all (neither file bytes nor
	// zero fill) is emitted for it
	Empty bool
}

// ExecSegs is Exec with any number of data segments (the caller keeps them
// disjoint).
func ExecSegs(prog []rvref.ProgIns, entry uint64, segs []DataSeg) *elfref.Desc {
	d := &elfref.Desc{Class: 2, Data: 1, Type: 2, Machine: 243, Entry: entry}
	off := uint64(0x200)
	var run []byte
	var runAddr uint64
	n := 0
	flush := func() {
		if len(run) == 0 {
			return
		}
		name := ".text"
		if n > 0 {
			name = fmt.Sprintf(".text.%d", n)
		}
		n++
		d.Blobs = append(d.Blobs, elfref.Blob{Off: off, Hex: hex.EncodeToString(run)})
		d.Secs = append(d.Secs, elfref.Sec{Name: name, Type: elfref.SHTProgbits, Flags: elfref.SHFAlloc | elfref.SHFExec, Addr: runAddr, Off: off, Size: uint64(len(run))})
		d.Progs = append(d.Progs, elfref.Prog{Type: elfref.PTLoad, Flags: 5, Off: off, Vaddr: runAddr, Filesz: uint64(len(run)), Memsz: uint64(len(run))})
		off += uint64(len(run)) + 16
		run = nil
	}
	for _, pi := range prog {
		if len(run) > 0 && pi.Addr != runAddr+uint64(len(run)) {
			flush()
		}
		if len(run) == 0 {
			runAddr = pi.Addr
		}
		run = append(run, byte(pi.Word), byte(pi.Word>>8), byte(pi.Word>>16), byte(pi.Word>>24))
	}
	flush()
	for i, sg := range segs {
		data, bss, dataAddr := sg.Data, sg.Bss, sg.Addr
		if sg.Empty {
			d.Progs = append(d.Progs, elfref.Prog{Type: elfref.PTLoad, Flags: 6, Off: off, Vaddr: dataAddr, Filesz: 0, Memsz: 0})
			continue
		}
		if len(data) == 0 && bss <= 0 {
			continue
		}
		name := ".data"
		if i > 0 {
			name = fmt.Sprintf(".data.%d", i)
		}
		d.Blobs = append(d.Blobs, elfref.Blob{Off: off, Hex: hex.EncodeToString(data)})
		d.Secs = append(d.Secs, elfref.Sec{Name: name, Type: elfref.SHTProgbits, Flags: elfref.SHFAlloc | elfref.SHFWrite, Addr: dataAddr, Off: off, Size: uint64(len(data))})
		d.Progs = append(d.Progs, elfref.Prog{Type: elfref.PTLoad, Flags: 6, Off: off, Vaddr: dataAddr, Filesz: uint64(len(data)), Memsz: uint64(len(data) + bss)})
		off += uint64(len(data)) + 16
	}
	off = (off + 7) / 8 * 8
	d.StrOff = off
	off += 256
	d.Phoff = off
	off += uint64(len(d.Progs)) * 56
	d.Shoff = (off + 7) / 8 * 8
	d.Size = int(d.Shoff) + (len(d.Secs)+2)*64
	return d
}

// Loaded is the result of the real loading pipeline.
type Loaded struct {
	Code    *deps.Code
	Mem     *elf.Memory
	ByteMem *memory.Bytes
	Instrs  []parser.Instruction
}

// Load writes the image to a scratch file and runs the real pipeline of
// cmd/mltwist/main.go: elf loader -> RISC-V lifter -> code model -> byte
// memory of the program image.
func Load(d *elfref.Desc) (*Loaded, error) {
	base := "/dev/shm"
	if st, err := os.Stat(base); err != nil || !st.IsDir() {
		base = os.TempDir()
	}
	path := filepath.Join(base, fmt.Sprintf("verif-img-%d", os.Getpid()))
	if err := os.WriteFile(path, elfref.Build(d), 0o644); err != nil {
		return nil, err
	}
	defer os.Remove(path)
	p, err := elf.NewParser(path)
	if err != nil {
		return nil, err
	}
	defer p.Close()
	code, err := p.MachineCode()
	if err != nil {
		return nil, err
	}
	mem, err := p.Memory()
	if err != nil {
		return nil, err
	}
	rp := riscv.NewParser(riscv.Variant64, riscv.ExtM, riscv.ExtA)
	ins, err := parser.Parse(code, rp)
	if err != nil {
		return nil, err
	}
	keep := make([]parser.Instruction, len(ins))
	copy(keep, ins)
	c, err := deps.NewCode(p.Entrypoint(), ins)
	if err != nil {
		return nil, err
	}
	blocks := make([]memory.ByteBlock, len(mem.Blocks))
	for i, b := range mem.Blocks {
		blocks[i] = b
	}
	bm, err := memory.NewBytes(blocks)
	if err != nil {
		return nil, err
	}
	return &Loaded{Code: c, Mem: mem, ByteMem: bm, Instrs: keep}, nil
}
