package core

import (
	"encoding/json"
	"fmt"
	"os"
	"path/filepath"
	"sort"
)

// VerifDir is where MANIFEST.json, known_findings.json, evidence/ and
// replays/ live. Overridable for tests through VERIF_DIR.
func VerifDir() string {
	if d := os.Getenv("VERIF_DIR"); d != "" {
		return d
	}
	return "/verif"
}

// Finding is one entry of known_findings.json. Open findings are keyed by
// (property, signature); fixed entries suppress nothing.
type Finding struct {
	Property  string `json:"property"`
	Signature string `json:"signature,omitempty"`
	Status    string `json:"status"` // "open" | "fixed"
	Commit    string `json:"commit,omitempty"`
	What      string `json:"what"`
	Replay    string `json:"replay,omitempty"`
}

type FindingsFile struct {
	Findings []Finding `json:"findings"`
}

func LoadFindings() (*FindingsFile, error) {
	p := filepath.Join(VerifDir(), "known_findings.json")
	raw, err := os.ReadFile(p)
	if err != nil {
		if os.IsNotExist(err) {
			return &FindingsFile{}, nil
		}
		return nil, err
	}
	ff := &FindingsFile{}
	if err := json.Unmarshal(raw, ff); err != nil {
		return nil, fmt.Errorf("known_findings.json: %w", err)
	}
	return ff, nil
}

// Tolerated returns the set of open signatures for prop.
func (f *FindingsFile) Tolerated(prop string) map[string]bool {
	m := map[string]bool{}
	for _, x := range f.Findings {
		if x.Property == prop && x.Status == "open" && x.Signature != "" {
			m[x.Signature] = true
		}
	}
	return m
}

func (f *FindingsFile) What(prop, sig string) string {
	for _, x := range f.Findings {
		if x.Property == prop && x.Status == "open" && x.Signature == sig {
			return x.What
		}
	}
	return ""
}

// Replay is the on-disk form of a violation: everything needed to reproduce
// it exactly in a fresh process.
type Replay struct {
	Property  string          `json:"property"`
	Engine    string          `json:"engine"`
	VerifSeed uint64          `json:"verif_seed"`
	RunIndex  int             `json:"run_index"`
	Tier      string          `json:"tier"`
	Signature string          `json:"signature"`
	Oracle    string          `json:"oracle"`
	Event     int             `json:"event"`
	Detail    string          `json:"detail"`
	LogHash   string          `json:"log_hash"`
	Minimised bool            `json:"minimised"`
	OrigLen   int             `json:"original_events"`
	Trace     json.RawMessage `json:"trace"`
}

func WriteReplay(rp *Replay) (string, error) {
	dir := filepath.Join(VerifDir(), "replays")
	if err := os.MkdirAll(dir, 0o755); err != nil {
		return "", err
	}
	name := fmt.Sprintf("%s-%016x.json", rp.Property, HashString(rp.Signature))
	p := filepath.Join(dir, name)
	raw, err := json.MarshalIndent(rp, "", " ")
	if err != nil {
		return "", err
	}
	if err := os.WriteFile(p, raw, 0o644); err != nil {
		return "", err
	}
	return p, nil
}

func ReadReplay(path string) (*Replay, error) {
	raw, err := os.ReadFile(path)
	if err != nil {
		return nil, err
	}
	rp := &Replay{}
	if err := json.Unmarshal(raw, rp); err != nil {
		return nil, err
	}
	return rp, nil
}

func sortedKeys(m map[string]int) []string {
	ks := make([]string, 0, len(m))
	for k := range m {
		ks = append(ks, k)
	}
	sort.Strings(ks)
	return ks
}
