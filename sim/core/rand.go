// Package core holds the parts shared by every simulation engine: the PRNG
// that decides everything, trace/replay plumbing, the multi-process
// orchestrator, delta-debugging minimiser, evidence and known-findings files.
package core

import "hash/fnv"

// SplitMix64 is the usual 64-bit mixer; used to derive run seeds.
func SplitMix64(x uint64) uint64 {
	x += 0x9e3779b97f4a7c15
	z := x
	z = (z ^ (z >> 30)) * 0xbf58476d1ce4e5b9
	z = (z ^ (z >> 27)) * 0x94d049bb133111eb
	return z ^ (z >> 31)
}

// HashString is FNV-1a over s.
func HashString(s string) uint64 {
	h := fnv.New64a()
	h.Write([]byte(s))
	return h.Sum64()
}

// RunSeed derives the seed of run idx of an engine/property batch from the
// single VERIF_SEED integer.
func RunSeed(base uint64, engine, prop string, idx int) uint64 {
	return SplitMix64(base ^ SplitMix64(HashString(engine+"/"+prop)) ^ SplitMix64(uint64(idx)+0x51ed))
}

// Rand is xoshiro256**. Own implementation so that results never depend on a
// library version.
type Rand struct{ s [4]uint64 }

func NewRand(seed uint64) *Rand {
	r := &Rand{}
	x := seed
	for i := range r.s {
		x = SplitMix64(x)
		r.s[i] = x
	}
	if r.s[0]|r.s[1]|r.s[2]|r.s[3] == 0 {
		r.s[0] = 1
	}
	return r
}

func rotl(x uint64, k uint) uint64 { return (x << k) | (x >> (64 - k)) }

func (r *Rand) Uint64() uint64 {
	res := rotl(r.s[1]*5, 7) * 9
	t := r.s[1] << 17
	r.s[2] ^= r.s[0]
	r.s[3] ^= r.s[1]
	r.s[1] ^= r.s[2]
	r.s[0] ^= r.s[3]
	r.s[2] ^= t
	r.s[3] = rotl(r.s[3], 45)
	return res
}

// Intn returns a value in [0, n). n must be > 0.
func (r *Rand) Intn(n int) int {
	if n <= 0 {
		panic("Intn: n <= 0")
	}
	return int(r.Uint64() % uint64(n))
}

// Range returns a value in [lo, hi] inclusive.
func (r *Rand) Range(lo, hi int) int {
	if hi < lo {
		lo, hi = hi, lo
	}
	return lo + r.Intn(hi-lo+1)
}

func (r *Rand) Bool() bool { return r.Uint64()&1 == 1 }

// Chance is true with probability num/den.
func (r *Rand) Chance(num, den int) bool { return r.Intn(den) < num }

// Weighted picks an index proportionally to weights (all >= 0, sum > 0).
func (r *Rand) Weighted(weights []int) int {
	sum := 0
	for _, w := range weights {
		sum += w
	}
	if sum <= 0 {
		return r.Intn(len(weights))
	}
	x := r.Intn(sum)
	for i, w := range weights {
		if x < w {
			return i
		}
		x -= w
	}
	return len(weights) - 1
}

// Bytes fills n random bytes.
func (r *Rand) Bytes(n int) []byte {
	b := make([]byte, n)
	for i := 0; i < n; i += 8 {
		v := r.Uint64()
		for j := 0; j < 8 && i+j < n; j++ {
			b[i+j] = byte(v >> (8 * uint(j)))
		}
	}
	return b
}

// InterestingU64 returns a 64-bit value biased to boundary values.
func (r *Rand) InterestingU64() uint64 {
	switch r.Intn(10) {
	case 0:
		return 0
	case 1:
		return 1
	case 2:
		return ^uint64(0)
	case 3:
		return 1 << 63
	case 4:
		return (1 << 63) - 1
	case 5:
		return uint64(r.Intn(256))
	case 6:
		return uint64(int64(-1 - r.Intn(256)))
	case 7:
		return 0xffffffff >> uint(r.Intn(2)) << uint(r.Intn(2)*32)
	case 8:
		return uint64(1) << uint(r.Intn(64))
	default:
		return r.Uint64()
	}
}
