package core

import (
	"bufio"
	"bytes"
	"encoding/binary"
	"encoding/json"
	"fmt"
	"io"
	"os"
	"os/exec"
	"path/filepath"
	"runtime"
	"sort"
	"strconv"
	"strings"
	"sync"
	"time"
)

// ProcessSetup is implemented by engines that need per-process preparation
// (e.g. uisim: pty on fd 0, stdout capture). Called once in every worker,
// shrink and replay process before the first Execute.
type ProcessSetup interface {
	SetupProcess() error
}

// Options of one batch.
type Options struct {
	Prop    string
	Tier    string // quick | thorough
	Seed    uint64
	Seeds   []uint64 // thorough: several seeds, budget split evenly; evidence aggregated
	Runs    int // 0 = engine default for the tier
	BudgetS int // >0: wall-clock budget, stop scheduling new runs afterwards
	Workers int
}

// WorkerStats is what one worker reports at the end; all fields merge by sum
// or set union so that results do not depend on the worker count.
type WorkerStats struct {
	Runs       int               `json:"runs"`
	Events     int               `json:"events"`
	NonTrivial int               `json:"nontrivial"`
	Resyncs    int               `json:"resyncs"`
	Faults     map[string]int    `json:"faults"`
	Probes     map[string]int    `json:"probes"`
	Known      map[string]int    `json:"known"`
	KnownEx    map[string]string `json:"known_ex"`
	States     []string          `json:"states"`
	Samples    []json.RawMessage `json:"samples"`
	MaxIdx     int               `json:"max_idx"`
	// violations that did not show again when the same run index was
	// executed alone in a fresh process ("idx signature")
	Irreproducible []string `json:"irreproducible,omitempty"`
}

const maxHashesPerWorker = 400000
const maxStatesPerWorker = 200000

func setupEngine(e Engine) error {
	if s, ok := e.(ProcessSetup); ok {
		return s.SetupProcess()
	}
	return nil
}

// Worker executes run indices w, w+W, ... and reports on stdout:
//   R <idx>            before each run (crash attribution)
//   V <idx> <json>     first violation found (then the worker stops)
//   S <json>           final statistics
func Worker(opt Options, w, W int, deadlineUnix int64, hashFile string, out io.Writer) int {
	e := EngineFor(opt.Prop)
	if e == nil {
		fmt.Fprintf(os.Stderr, "no engine for %s\n", opt.Prop)
		return 2
	}
	if err := setupEngine(e); err != nil {
		fmt.Fprintf(os.Stderr, "HARNESS: process setup failed: %v\n", err)
		return 2
	}
	ff, err := LoadFindings()
	if err != nil {
		fmt.Fprintf(os.Stderr, "HARNESS: %v\n", err)
		return 2
	}
	tol := ff.Tolerated(opt.Prop)

	bw := bufio.NewWriterSize(out, 1<<16)
	defer bw.Flush()

	st := &WorkerStats{Faults: map[string]int{}, Probes: map[string]int{}, Known: map[string]int{}, KnownEx: map[string]string{}}
	states := map[string]struct{}{}
	hashes := map[uint64]struct{}{}

	for idx := w; opt.Runs <= 0 || idx < opt.Runs; idx += W {
		if deadlineUnix > 0 && time.Now().Unix() >= deadlineUnix {
			break
		}
		fmt.Fprintf(bw, "R %d\n", idx)
		bw.Flush() // the orchestrator must know which run a dying worker was in
		r := NewRand(RunSeed(opt.Seed, e.Name(), opt.Prop, idx))
		tr := e.Generate(r, opt.Prop, opt.Tier)
		ctx := NewCtx(opt.Prop, tol, nil)
		e.Execute(tr, ctx)

		st.Runs++
		st.MaxIdx = idx
		st.Events += ctx.Events
		st.Resyncs += ctx.Resyncs
		for k, v := range ctx.Faults {
			st.Faults[k] += v
		}
		for k, v := range ctx.Probes {
			st.Probes[k] += v
		}
		for k, v := range ctx.Known {
			st.Known[k] += v
			if _, ok := st.KnownEx[k]; !ok {
				st.KnownEx[k] = ctx.KnownEx[k]
			}
		}
		if len(states) < maxStatesPerWorker {
			for k := range ctx.States {
				states[k] = struct{}{}
			}
		}
		if ctx.NonTriv {
			st.NonTrivial++
			if len(hashes) < maxHashesPerWorker {
				hashes[ctx.Hash()] = struct{}{}
			}
		}
		if len(st.Samples) < 2 && (ctx.NonTriv || idx > 40*W) {
			if raw, err := json.Marshal(tr); err == nil && len(raw) < 6000 {
				st.Samples = append(st.Samples, raw)
			}
		}
		if ctx.Violation != nil {
			// One run is one execution: a verdict must not depend on what
			// earlier runs left behind in this process (package-level
			// state of the code under test). Confirm in a fresh process;
			// what does not show there is counted and the worker goes on.
			if !strings.HasPrefix(ctx.Violation.Signature, "hang/") && !confirmAlone(opt, idx) {
				st.Irreproducible = append(st.Irreproducible, fmt.Sprintf("%d %s", idx, ctx.Violation.Signature))
				continue
			}
			raw, _ := json.Marshal(ctx.Violation)
			fmt.Fprintf(bw, "V %d %s\n", idx, raw)
			break
		}
	}

	for k := range states {
		st.States = append(st.States, k)
	}
	sort.Strings(st.States)
	raw, _ := json.Marshal(st)
	fmt.Fprintf(bw, "S %s\n", raw)
	bw.Flush()

	if hashFile != "" {
		buf := make([]byte, 0, 8*len(hashes))
		for h := range hashes {
			var b [8]byte
			binary.LittleEndian.PutUint64(b[:], h)
			buf = append(buf, b[:]...)
		}
		_ = os.WriteFile(hashFile, buf, 0o644)
	}
	return 0
}

// confirmAlone re-executes one run index in a fresh process and reports
// whether it ends in a violation there too (anything but a clean exit counts:
// a crash of the child is sorted out by the orchestrator).
func confirmAlone(opt Options, idx int) bool {
	args := append([]string{"one"}, baseArgs(opt)...)
	args = append(args, "-idx", strconv.Itoa(idx))
	cmd := exec.Command(selfExe(), args...)
	cmd.Stdout, cmd.Stderr = io.Discard, io.Discard
	done := make(chan error, 1)
	if err := cmd.Start(); err != nil {
		return true
	}
	go func() { done <- cmd.Wait() }()
	select {
	case err := <-done:
		return err != nil
	case <-time.After(120 * time.Second):
		_ = cmd.Process.Kill()
		<-done
		return true
	}
}

type workerResult struct {
	stats    *WorkerStats
	vioIdx   int
	vio      *Violation
	lastIdx  int
	exitErr  error
	stderr   string
	finished bool
}

func selfExe() string {
	p, err := os.Executable()
	if err != nil {
		return os.Args[0]
	}
	return p
}

// batch is the merged outcome of all workers of one seed.
type batch struct {
	total    *WorkerStats
	states   map[string]struct{}
	hashes   map[uint64]struct{}
	vio      *Violation
	vioIdx   int
	vioSeed  uint64
	trouble  string
}

func newBatch() *batch {
	return &batch{total: &WorkerStats{Faults: map[string]int{}, Probes: map[string]int{}, Known: map[string]int{}, KnownEx: map[string]string{}},
		states: map[string]struct{}{}, hashes: map[uint64]struct{}{}, vioIdx: -1}
}

// runSeed forks the workers of one seed and merges their reports into b.
func runSeed(opt Options, e Engine, b *batch) {
	tmp, err := os.MkdirTemp(filepath.Join(VerifDir(), "build"), "run-")
	if err != nil {
		b.trouble = err.Error()
		return
	}
	defer os.RemoveAll(tmp)

	var deadline int64
	if opt.BudgetS > 0 {
		deadline = time.Now().Unix() + int64(opt.BudgetS)
	}

	results := make([]*workerResult, opt.Workers)
	var wg sync.WaitGroup
	for w := 0; w < opt.Workers; w++ {
		wg.Add(1)
		go func(w int) {
			defer wg.Done()
			results[w] = runWorker(opt, w, deadline, filepath.Join(tmp, fmt.Sprintf("h%d", w)))
		}(w)
	}
	wg.Wait()

	total := b.total
	for w, r := range results {
		if r.stats != nil {
			total.Runs += r.stats.Runs
			total.Events += r.stats.Events
			total.NonTrivial += r.stats.NonTrivial
			total.Resyncs += r.stats.Resyncs
			for k, v := range r.stats.Faults {
				total.Faults[k] += v
			}
			for k, v := range r.stats.Probes {
				total.Probes[k] += v
			}
			for k, v := range r.stats.Known {
				total.Known[k] += v
				if _, ok := total.KnownEx[k]; !ok {
					total.KnownEx[k] = r.stats.KnownEx[k]
				}
			}
			for _, s := range r.stats.States {
				b.states[s] = struct{}{}
			}
			if len(total.Samples) < 3 {
				total.Samples = append(total.Samples, r.stats.Samples...)
			}
			if r.stats.MaxIdx > total.MaxIdx {
				total.MaxIdx = r.stats.MaxIdx
			}
			total.Irreproducible = append(total.Irreproducible, r.stats.Irreproducible...)
			if raw, err := os.ReadFile(filepath.Join(tmp, fmt.Sprintf("h%d", w))); err == nil {
				for i := 0; i+8 <= len(raw); i += 8 {
					b.hashes[binary.LittleEndian.Uint64(raw[i:])] = struct{}{}
				}
			}
		}
		if r.vio != nil && b.vio == nil || (r.vio != nil && b.vioSeed == opt.Seed && r.vioIdx < b.vioIdx) {
			b.vio, b.vioIdx, b.vioSeed = r.vio, r.vioIdx, opt.Seed
		}
		if !r.finished && r.vio == nil {
			// Worker died without a verdict: re-execute that index alone.
			v, msg := rerunCrashed(opt, e, r.lastIdx)
			if v != nil {
				if b.vio == nil || (b.vioSeed == opt.Seed && r.lastIdx < b.vioIdx) {
					b.vio, b.vioIdx, b.vioSeed = v, r.lastIdx, opt.Seed
				}
			} else {
				b.trouble = fmt.Sprintf("worker %d died at run %d without a verdict (%v): %s; stderr: %s",
					w, r.lastIdx, r.exitErr, msg, tail(r.stderr, 1500))
			}
		}
	}
}

// Run is the orchestrator: forks workers (per seed), merges their reports,
// minimises and replays the first violation, writes the evidence file.
// Returns the exit code (0 held, 1 violation, 2 harness trouble).
func Run(opt Options) int {
	start := time.Now()
	e := EngineFor(opt.Prop)
	if e == nil {
		fmt.Fprintf(os.Stderr, "HARNESS: no engine serves property %s\n", opt.Prop)
		return 2
	}
	desc := e.Describe(opt.Prop)
	if opt.Workers <= 0 {
		opt.Workers = runtime.NumCPU()
	}
	if opt.Runs <= 0 && opt.BudgetS <= 0 {
		opt.Runs = desc.QuickRuns
	}
	if len(opt.Seeds) == 0 {
		opt.Seeds = []uint64{opt.Seed}
	}
	opt.Seed = opt.Seeds[0]
	ff, err := LoadFindings()
	if err != nil {
		fmt.Fprintf(os.Stderr, "HARNESS: %v\n", err)
		return 2
	}

	b := newBatch()
	totalBudget := opt.BudgetS
	for i, seed := range opt.Seeds {
		o := opt
		o.Seed = seed
		if totalBudget > 0 {
			o.BudgetS = totalBudget / len(opt.Seeds)
		}
		fmt.Printf("VERIF_SEED=%d property=%s engine=%s tier=%s runs=%d budget_s=%d workers=%d (seed %d of %d)\n",
			seed, opt.Prop, e.Name(), opt.Tier, o.Runs, o.BudgetS, opt.Workers, i+1, len(opt.Seeds))
		runSeed(o, e, b)
		if b.vio != nil || b.trouble != "" {
			break
		}
	}
	total, states, hashes := b.total, b.states, b.hashes
	firstVio, firstVioIdx, trouble := b.vio, b.vioIdx, b.trouble

	exit := 0
	violations := 0
	replayPath := ""
	if firstVio != nil {
		violations = 1
		o := opt
		o.Seed = b.vioSeed
		var p string
		var code int
		if pre, ok := preparedReplays[firstVio.Signature]; ok {
			p, code = pre, confirmReplay(pre)
		} else {
			p, code = shrinkAndReplay(o, firstVioIdx)
		}
		replayPath = p
		if code == 2 {
			trouble = "violation did not replay deterministically (harness trouble): " + firstVio.Signature
		} else {
			exit = 1
		}
	}

	if len(total.Irreproducible) > 0 {
		fmt.Printf("NOTE: %d violation(s) seen by a worker did not show again in a fresh process and were not reported, e.g. run %s\n", len(total.Irreproducible), total.Irreproducible[0])
	}
	if firstVio == nil && trouble == "" && len(total.Irreproducible) > 0 {
		trouble = fmt.Sprintf("%d violation(s) did not show again when their run was executed alone in a fresh process (state leaking between the runs of one worker?), e.g. run %s",
			len(total.Irreproducible), total.Irreproducible[0])
	}
	// Known findings seen in this batch.
	for _, sig := range sortedKeys(total.Known) {
		fmt.Printf("KNOWN-FINDING: property=%s %s [signature %s, %d hits; e.g. %s]\n",
			opt.Prop, ff.What(opt.Prop, sig), sig, total.Known[sig], oneLine(total.KnownEx[sig], 300))
	}
	for _, f := range ff.Findings {
		if f.Property == opt.Prop && f.Status == "open" && total.Known[f.Signature] == 0 {
			fmt.Printf("NOTE: open known finding not reproduced in this batch: %s\n", f.Signature)
		}
	}

	wall := time.Since(start).Seconds()
	if err := writeEvidence(opt, e, desc, total, len(states), len(hashes), wall, violations, firstVio, replayPath); err != nil {
		fmt.Fprintf(os.Stderr, "HARNESS: cannot write evidence: %v\n", err)
		return 2
	}

	fmt.Printf("summary: runs=%d events=%d nontrivial=%d distinct_nontrivial=%d abstract_states=%d resyncs=%d wall_s=%.1f runs_per_hour=%.0f\n",
		total.Runs, total.Events, total.NonTrivial, len(hashes), len(states), total.Resyncs, wall, float64(total.Runs)/wall*3600)
	fmt.Printf("faults: %s\n", fmtCounts(total.Faults))
	fmt.Printf("probes: %s\n", fmtCounts(total.Probes))

	if trouble != "" {
		fmt.Fprintf(os.Stderr, "HARNESS: %s\n", trouble)
		return 2
	}
	if exit == 1 {
		fmt.Printf("violation: oracle=%s signature=%s event=%d detail=%s\n", firstVio.Oracle, firstVio.Signature, firstVio.Event, oneLine(firstVio.Detail, 600))
		fmt.Printf("VIOLATION property=%s replay=%s\n", opt.Prop, replayPath)
	}
	return exit
}

func oneLine(s string, n int) string {
	s = strings.ReplaceAll(s, "\n", " / ")
	if len(s) > n {
		s = s[:n] + "..."
	}
	return s
}

func tail(s string, n int) string {
	if len(s) > n {
		return "..." + s[len(s)-n:]
	}
	return s
}

func fmtCounts(m map[string]int) string {
	var sb strings.Builder
	for i, k := range sortedKeys(m) {
		if i > 0 {
			sb.WriteString(" ")
		}
		fmt.Fprintf(&sb, "%s=%d", k, m[k])
	}
	return sb.String()
}

func baseArgs(opt Options) []string {
	return []string{"-prop", opt.Prop, "-tier", opt.Tier, "-seed", strconv.FormatUint(opt.Seed, 10), "-runs", strconv.Itoa(opt.Runs)}
}

func runWorker(opt Options, w int, deadline int64, hashFile string) *workerResult {
	res := &workerResult{vioIdx: -1, lastIdx: -1}
	args := append([]string{"worker"}, baseArgs(opt)...)
	args = append(args, "-w", strconv.Itoa(w), "-W", strconv.Itoa(opt.Workers),
		"-deadline", strconv.FormatInt(deadline, 10), "-hashfile", hashFile)
	cmd := exec.Command(selfExe(), args...)
	var stderr bytes.Buffer
	cmd.Stderr = &limitedWriter{w: &stderr, n: 1 << 20}
	stdout, err := cmd.StdoutPipe()
	if err != nil {
		res.exitErr = err
		return res
	}
	if err := cmd.Start(); err != nil {
		res.exitErr = err
		return res
	}

	progress := make(chan struct{}, 1)
	done := make(chan struct{})
	go func() {
		// No-progress watchdog: real timer, influences only aborting.
		t := time.NewTimer(180 * time.Second)
		defer t.Stop()
		for {
			select {
			case <-progress:
				if !t.Stop() {
					select {
					case <-t.C:
					default:
					}
				}
				t.Reset(180 * time.Second)
			case <-t.C:
				_ = cmd.Process.Kill()
				return
			case <-done:
				return
			}
		}
	}()

	sc := bufio.NewScanner(stdout)
	sc.Buffer(make([]byte, 1<<20), 1<<28)
	for sc.Scan() {
		line := sc.Text()
		select {
		case progress <- struct{}{}:
		default:
		}
		switch {
		case strings.HasPrefix(line, "R "):
			res.lastIdx, _ = strconv.Atoi(line[2:])
		case strings.HasPrefix(line, "V "):
			rest := line[2:]
			sp := strings.IndexByte(rest, ' ')
			res.vioIdx, _ = strconv.Atoi(rest[:sp])
			v := &Violation{}
			if json.Unmarshal([]byte(rest[sp+1:]), v) == nil {
				res.vio = v
			}
		case strings.HasPrefix(line, "S "):
			st := &WorkerStats{}
			if json.Unmarshal([]byte(line[2:]), st) == nil {
				res.stats = st
				res.finished = true
			}
		}
	}
	res.exitErr = cmd.Wait()
	os.Remove(hangFile(cmd.Process.Pid)) // a hung worker's dump: the run is re-executed alone anyway
	close(done)
	res.stderr = stderr.String()
	if res.exitErr != nil {
		res.finished = false
	}
	return res
}

type limitedWriter struct {
	w io.Writer
	n int
}

func (l *limitedWriter) Write(p []byte) (int, error) {
	if l.n > 0 {
		q := p
		if len(q) > l.n {
			q = q[:l.n]
		}
		l.w.Write(q)
		l.n -= len(q)
	}
	return len(p), nil
}

// hangMarker identifies the goroutine that runs the tool in a stack dump.
const hangMarker = "(*session).run"

// preparedReplays: violations whose replay file already exists (hangs cannot
// be minimised: every candidate would cost a watchdog period).
var preparedReplays = map[string]string{}

// rerunCrashed re-executes one run index alone in a fresh child. If it dies
// again and the runtime's report names an mltwist (non-harness) frame, this is
// a crash of the code under test that recover() cannot catch.
func rerunCrashed(opt Options, e Engine, idx int) (*Violation, string) {
	if idx < 0 {
		return nil, "no run had started"
	}
	args := append([]string{"one"}, baseArgs(opt)...)
	args = append(args, "-idx", strconv.Itoa(idx))
	cmd := exec.Command(selfExe(), args...)
	dump := filepath.Join(VerifDir(), "build", fmt.Sprintf("trace-%d-%d.json", os.Getpid(), idx))
	os.Remove(dump)
	defer os.Remove(dump)
	cmd.Env = append(os.Environ(), "VERIF_DUMP_TRACE="+dump)
	var stderr bytes.Buffer
	cmd.Stderr = &limitedWriter{w: &stderr, n: 1 << 20}
	cmd.Stdout = io.Discard
	done := make(chan error, 1)
	if err := cmd.Start(); err != nil {
		return nil, err.Error()
	}
	go func() { done <- cmd.Wait() }()
	select {
	case err := <-done:
		if err == nil {
			return nil, "re-execution alone succeeded (not reproducible)"
		}
		if ee, ok := err.(*exec.ExitError); ok && ee.ExitCode() == 97 {
			// The engine's watchdog fired again: a reproducible hang.
			d := takeHangDump(cmd.Process.Pid)
			if d == nil || len(d.Trace) == 0 {
				return nil, "hung again (watchdog) but left no dump"
			}
			fn, harness := HangOwner(d.Stack, hangMarker)
			if harness {
				return nil, "hung again (watchdog) with the harness as innermost frame: " + fn
			}
			v := &Violation{Property: opt.Prop, Oracle: "no-hang", Signature: "hang/" + fn, Event: -1,
				Detail: "the tool did not return to the simulator (" + d.Reason + "); innermost frame " + fn}
			rp := &Replay{Property: opt.Prop, Engine: e.Name(), VerifSeed: opt.Seed, RunIndex: idx, Tier: opt.Tier,
				Signature: v.Signature, Oracle: v.Oracle, Event: -1, Detail: v.Detail, LogHash: "", Minimised: false, Trace: d.Trace}
			p, werr := WriteReplay(rp)
			if werr != nil {
				return nil, werr.Error()
			}
			preparedReplays[v.Signature] = p
			return v, ""
		}
	case <-time.After(120 * time.Second):
		_ = cmd.Process.Kill()
		<-done
		return nil, "re-execution alone hung (watchdog)"
	}
	txt := stderr.String()
	if !strings.Contains(txt, "fatal error:") && !strings.Contains(txt, "goroutine ") {
		return nil, "died again without a Go runtime report"
	}
	fn, first := fatalFrame(txt)
	if fn == "" {
		return nil, "runtime report names no mltwist frame first"
	}
	v := &Violation{Property: opt.Prop, Oracle: "no-crash", Signature: "fatal/" + fn, Event: -1,
		Detail: "process died with a Go runtime fatal error: " + first}
	// A fatal error kills every process that executes the trace, the
	// minimiser included: the replay file holds the trace as generated (the
	// child wrote it down before executing it) and replays in a child.
	if raw, rerr := os.ReadFile(dump); rerr == nil && len(raw) > 0 {
		rp := &Replay{Property: opt.Prop, Engine: e.Name(), VerifSeed: opt.Seed, RunIndex: idx, Tier: opt.Tier,
			Signature: v.Signature, Oracle: v.Oracle, Event: -1, Detail: v.Detail, LogHash: "", Minimised: false, Trace: raw}
		if p, werr := WriteReplay(rp); werr == nil {
			preparedReplays[v.Signature] = p
		}
	}
	return v, ""
}

// fatalFrame extracts from a Go runtime report the innermost mltwist frame
// that is not part of the harness (empty if the harness comes first) and the
// first line of the report.
func fatalFrame(txt string) (fn, first string) {
	for _, l := range strings.Split(txt, "\n") {
		l = strings.TrimSpace(l)
		if strings.HasPrefix(l, "mltwist/") {
			if strings.Contains(l, "/verifsim/") {
				break
			}
			if i := strings.LastIndex(l, "("); i > 0 {
				l = l[:i]
			}
			fn = strings.TrimPrefix(l, "mltwist/")
			break
		}
	}
	for _, l := range strings.Split(txt, "\n") {
		if strings.HasPrefix(l, "fatal error:") || strings.HasPrefix(l, "runtime:") {
			first = l
			break
		}
	}
	return fn, first
}

// shrinkAndReplay runs the minimiser in a child (engines may need process
// setup), then replays the written file in another fresh process.
func shrinkAndReplay(opt Options, idx int) (string, int) {
	args := append([]string{"shrink"}, baseArgs(opt)...)
	args = append(args, "-idx", strconv.Itoa(idx))
	cmd := exec.Command(selfExe(), args...)
	cmd.Stderr = os.Stderr
	out, err := cmd.Output()
	path := ""
	for _, l := range strings.Split(string(out), "\n") {
		if strings.HasPrefix(l, "REPLAY ") {
			path = strings.TrimSpace(l[7:])
		}
	}
	if err != nil || path == "" {
		fmt.Fprintf(os.Stderr, "HARNESS: shrink child failed: %v\n%s\n", err, out)
		return "", 2
	}
	if code := confirmReplay(path); code != 2 {
		return path, code
	}
	// The minimised trace does not fail in a fresh process: the minimiser
	// executes its candidates in one process, so state that the code under
	// test keeps between executions can make a candidate fail there and
	// nowhere else. Fall back to the trace as generated (which the worker
	// confirmed alone in a fresh process).
	fmt.Fprintf(os.Stderr, "NOTE: the minimised trace does not reproduce in a fresh process; writing the trace as generated instead\n")
	os.Remove(path)
	cmd = exec.Command(selfExe(), args...)
	cmd.Env = append(os.Environ(), "VERIF_NO_MINIMISE=1")
	cmd.Stderr = os.Stderr
	out, err = cmd.Output()
	path = ""
	for _, l := range strings.Split(string(out), "\n") {
		if strings.HasPrefix(l, "REPLAY ") {
			path = strings.TrimSpace(l[7:])
		}
	}
	if err != nil || path == "" {
		fmt.Fprintf(os.Stderr, "HARNESS: shrink child failed: %v\n%s\n", err, out)
		return "", 2
	}
	return path, confirmReplay(path)
}

// confirmReplay replays a file in a fresh process: exit 1 = reproduced.
func confirmReplay(path string) int {
	// Fresh-process replay must reproduce signature and log hash.
	rc := exec.Command(selfExe(), "replay", "-quiet", path)
	rc.Stderr = os.Stderr
	rout, rerr := rc.Output()
	code := 0
	if ee, ok := rerr.(*exec.ExitError); ok {
		code = ee.ExitCode()
	} else if rerr != nil {
		code = 2
	}
	if code != 1 {
		fmt.Fprintf(os.Stderr, "HARNESS: fresh-process replay of %s exited %d: %s\n", path, code, rout)
		return 2
	}
	return 1
}

// Shrink regenerates run idx, minimises it and writes the replay file.
func Shrink(opt Options, idx int) int {
	e := EngineFor(opt.Prop)
	if e == nil {
		return 2
	}
	if err := setupEngine(e); err != nil {
		fmt.Fprintf(os.Stderr, "HARNESS: process setup failed: %v\n", err)
		return 2
	}
	ff, err := LoadFindings()
	if err != nil {
		return 2
	}
	tol := ff.Tolerated(opt.Prop)
	r := NewRand(RunSeed(opt.Seed, e.Name(), opt.Prop, idx))
	tr := e.Generate(r, opt.Prop, opt.Tier)
	ctx := NewCtx(opt.Prop, tol, nil)
	e.Execute(tr, ctx)
	if ctx.Violation == nil {
		fmt.Fprintf(os.Stderr, "HARNESS: run %d does not violate when re-executed\n", idx)
		return 2
	}
	sig := ctx.Violation.Signature
	origLen := tr.Len()
	best, v, execs := tr, (*Violation)(nil), 0
	if os.Getenv("VERIF_NO_MINIMISE") == "" {
		best, v, execs = Minimise(e, tr, opt.Prop, tol, sig, 4000)
	}
	minimised := true
	if v == nil {
		best, v, minimised = tr, ctx.Violation, false
	}
	ctx2 := NewCtx(opt.Prop, tol, nil)
	e.Execute(best, ctx2)
	if ctx2.Violation == nil || ctx2.Violation.Signature != sig {
		// The minimiser's candidates ran in this process one after another;
		// if the code under test keeps state between executions a candidate
		// can fail here and not again. Fall back to the trace as generated
		// (the fresh-process replay decides whether it stands).
		fmt.Fprintf(os.Stderr, "NOTE: the minimised trace lost the violation when executed again; writing the trace as generated\n")
		best, minimised = tr, false
		ctx2 = ctx
	}
	raw, err := json.Marshal(best)
	if err != nil {
		return 2
	}
	rp := &Replay{Property: opt.Prop, Engine: e.Name(), VerifSeed: opt.Seed, RunIndex: idx, Tier: opt.Tier,
		Signature: sig, Oracle: v.Oracle, Event: ctx2.Violation.Event, Detail: ctx2.Violation.Detail,
		LogHash: fmt.Sprintf("%016x", ctx2.Hash()), Minimised: minimised, OrigLen: origLen, Trace: raw}
	p, err := WriteReplay(rp)
	if err != nil {
		fmt.Fprintf(os.Stderr, "HARNESS: %v\n", err)
		return 2
	}
	fmt.Printf("minimised %d -> %d events in %d executions\n", origLen, best.Len(), execs)
	fmt.Printf("REPLAY %s\n", p)
	return 0
}

// ReplayFile executes a stored trace in this (fresh) process. Exit 1 with the
// VIOLATION line when the violation reproduces exactly, 0 when it no longer
// occurs, 2 when the run diverges from the recorded log.
func ReplayFile(path string, quiet bool, withKnown bool) int {
	rp, err := ReadReplay(path)
	if err != nil {
		fmt.Fprintf(os.Stderr, "HARNESS: %v\n", err)
		return 2
	}
	e := EngineByName(rp.Engine)
	if e == nil {
		fmt.Fprintf(os.Stderr, "HARNESS: unknown engine %s\n", rp.Engine)
		return 2
	}
	if err := setupEngine(e); err != nil {
		fmt.Fprintf(os.Stderr, "HARNESS: process setup failed: %v\n", err)
		return 2
	}
	tr, err := e.Decode(rp.Trace)
	if err != nil {
		fmt.Fprintf(os.Stderr, "HARNESS: %v\n", err)
		return 2
	}
	tol := map[string]bool{}
	if withKnown {
		ff, err := LoadFindings()
		if err != nil {
			return 2
		}
		tol = ff.Tolerated(rp.Property)
		delete(tol, rp.Signature)
	}
	var log io.Writer
	if !quiet {
		log = os.Stdout
	}
	if strings.HasPrefix(rp.Signature, "hang/") {
		ReplayExpect = &struct{ Prop, Sig, Path string }{rp.Property, rp.Signature, path}
	}
	if strings.HasPrefix(rp.Signature, "fatal/") && os.Getenv("VERIF_REPLAY_INPROC") == "" {
		// executing this trace is expected to kill the process: do it in a child
		args := []string{"replay", "-quiet"}
		if withKnown {
			args = append(args, "-with-known")
		}
		cmd := exec.Command(selfExe(), append(args, path)...)
		cmd.Env = append(os.Environ(), "VERIF_REPLAY_INPROC=1")
		var stderr bytes.Buffer
		cmd.Stderr = &limitedWriter{w: &stderr, n: 1 << 20}
		out, cerr := cmd.Output()
		if cerr == nil {
			fmt.Printf("replay: no violation (property %s holds on this trace now)\n", rp.Property)
			return 0
		}
		txt := stderr.String()
		if strings.Contains(txt, "fatal error:") || strings.Contains(txt, "goroutine ") {
			if fn, first := fatalFrame(txt); fn != "" {
				if "fatal/"+fn == rp.Signature {
					fmt.Printf("replay: reproduced oracle=no-crash signature=%s detail=process died with a Go runtime fatal error: %s\n", rp.Signature, first)
				} else {
					fmt.Printf("replay: different violation: fatal/%s (recorded %s): %s\n", fn, rp.Signature, first)
				}
				fmt.Printf("VIOLATION property=%s replay=%s\n", rp.Property, path)
				return 1
			}
			fmt.Fprintf(os.Stderr, "HARNESS: replay child died in the harness:\n%s\n", txt)
			return 2
		}
		os.Stdout.Write(out) // an ordinary verdict of the child (different violation, or trouble)
		if ee, ok := cerr.(*exec.ExitError); ok {
			return ee.ExitCode()
		}
		return 2
	}
	ctx := NewCtx(rp.Property, tol, log)
	e.Execute(tr, ctx)
	if ctx.Violation == nil {
		fmt.Printf("replay: no violation (property %s holds on this trace now)\n", rp.Property)
		return 0
	}
	got := fmt.Sprintf("%016x", ctx.Hash())
	if ctx.Violation.Signature != rp.Signature {
		fmt.Printf("replay: different violation: %s (recorded %s): %s\n", ctx.Violation.Signature, rp.Signature, oneLine(ctx.Violation.Detail, 500))
		fmt.Printf("VIOLATION property=%s replay=%s\n", rp.Property, path)
		return 1
	}
	if got != rp.LogHash && withKnown == false {
		fmt.Printf("replay: same signature but event log hash differs (%s != recorded %s)\n", got, rp.LogHash)
	}
	fmt.Printf("replay: reproduced oracle=%s signature=%s event=%d detail=%s\n", ctx.Violation.Oracle, ctx.Violation.Signature, ctx.Violation.Event, oneLine(ctx.Violation.Detail, 800))
	fmt.Printf("VIOLATION property=%s replay=%s\n", rp.Property, path)
	return 1
}

// One executes a single run index (used for crash re-execution and debugging).
func One(opt Options, idx int, verbose bool) int {
	e := EngineFor(opt.Prop)
	if e == nil {
		return 2
	}
	if err := setupEngine(e); err != nil {
		fmt.Fprintf(os.Stderr, "HARNESS: process setup failed: %v\n", err)
		return 2
	}
	ff, _ := LoadFindings()
	tol := map[string]bool{}
	if ff != nil {
		tol = ff.Tolerated(opt.Prop)
	}
	r := NewRand(RunSeed(opt.Seed, e.Name(), opt.Prop, idx))
	tr := e.Generate(r, opt.Prop, opt.Tier)
	if dump := os.Getenv("VERIF_DUMP_TRACE"); dump != "" {
		if raw, err := json.Marshal(tr); err == nil {
			os.WriteFile(dump, raw, 0o644) // before executing: the execution may kill the process
		}
	}
	var log io.Writer
	if verbose {
		raw, _ := json.MarshalIndent(tr, "", " ")
		fmt.Printf("%s\n", raw)
		log = os.Stdout
	}
	ctx := NewCtx(opt.Prop, tol, log)
	e.Execute(tr, ctx)
	fmt.Printf("run %d hash=%016x events=%d nontrivial=%v\n", idx, ctx.Hash(), ctx.Events, ctx.NonTriv)
	if ctx.Violation != nil {
		fmt.Printf("violation: %+v\n", *ctx.Violation)
		return 1
	}
	return 0
}

// Hashes prints the event-log hash of runs [from, to) — determinism self-test.
func Hashes(opt Options, from, to int) int {
	e := EngineFor(opt.Prop)
	if e == nil {
		return 2
	}
	if err := setupEngine(e); err != nil {
		fmt.Fprintf(os.Stderr, "HARNESS: process setup failed: %v\n", err)
		return 2
	}
	ff, _ := LoadFindings()
	tol := map[string]bool{}
	if ff != nil {
		tol = ff.Tolerated(opt.Prop)
	}
	for idx := from; idx < to; idx++ {
		r := NewRand(RunSeed(opt.Seed, e.Name(), opt.Prop, idx))
		tr := e.Generate(r, opt.Prop, opt.Tier)
		raw, _ := json.Marshal(tr)
		ctx := NewCtx(opt.Prop, tol, nil)
		e.Execute(tr, ctx)
		v := "-"
		if ctx.Violation != nil {
			v = ctx.Violation.Signature
		}
		fmt.Printf("%d %016x %016x %d %s\n", idx, HashString(string(raw)), ctx.Hash(), ctx.Events, v)
	}
	return 0
}
