package core

import (
	"encoding/json"
	"os"
	"path/filepath"
)

func writeEvidence(opt Options, e Engine, d Description, st *WorkerStats, nStates, nDistinct int,
	wall float64, violations int, vio *Violation, replayPath string) error {

	samples := make([]interface{}, 0, len(st.Samples))
	for _, s := range st.Samples {
		var v interface{}
		if json.Unmarshal(s, &v) == nil {
			samples = append(samples, v)
		}
	}
	if len(samples) == 0 {
		samples = append(samples, "no sample trace short enough to embed; see `vsim one -prop "+opt.Prop+" -idx 0 -v`")
	}

	perHour := 0.0
	if wall > 0 {
		perHour = float64(st.Runs) / wall * 3600
	}
	stuck := []string{}
	for _, k := range sortedKeys(st.Probes) {
		if st.Probes[k] == 0 {
			stuck = append(stuck, k)
		}
	}

	cov := map[string]interface{}{
		"evaluations":             st.Runs,
		"distinct_nontrivial":     nDistinct,
		"rule":                    d.Rule,
		"samples":                 samples,
		"nontrivial_runs":         st.NonTrivial,
		"events_executed":         st.Events,
		"simulated_time":          "logical event counter only (mltwist has no clock): events_executed",
		"runs_per_hour":           perHour,
		"seeds_per_hour":          perHour,
		"fault_counts":            st.Faults,
		"probes":                  st.Probes,
		"probes_stuck_at_zero":    stuck,
		"abstract_states_reached": nStates,
		"resyncs":                 st.Resyncs,
		"known_findings_hit":      st.Known,
		"components_real":         d.ComponentsReal,
		"components_stub":         d.ComponentsStub,
		"engine":                  e.Name(),
		"workers":                 opt.Workers,
		"max_run_index":           st.MaxIdx,
		"budget_s":                opt.BudgetS,
		"seeds":                   opt.Seeds,
		"exhaustive":              false,
	}
	if vio != nil {
		cov["violation"] = vio
		cov["replay"] = replayPath
	}

	ev := map[string]interface{}{
		"property_id": opt.Prop,
		"tier":        opt.Tier,
		"seed":        opt.Seed,
		"level":       "exploration",
		"coverage":    cov,
		"assumptions": d.Assumptions,
		"wall_s":      wall,
		"violations":  violations,
	}
	raw, err := json.MarshalIndent(ev, "", " ")
	if err != nil {
		return err
	}
	dir := filepath.Join(VerifDir(), "evidence")
	if err := os.MkdirAll(dir, 0o755); err != nil {
		return err
	}
	return os.WriteFile(filepath.Join(dir, opt.Prop+".json"), raw, 0o644)
}
