package core

import (
	"encoding/json"
	"fmt"
	"os"
	"path/filepath"
	"runtime"
	"strings"
)

// A tool that loops without ever re-entering the simulator cannot be bounded
// from inside the run. The engine's watchdog (a real timer that can only
// abort) calls OnHang; a hang that reproduces when the run is re-executed
// alone and whose innermost frame is mltwist code (not the harness) is a
// violation of bounded progress ("hang/<function>"), replayed under the same
// watchdog. Anything else stays harness trouble (exit 2).

// CurrentTrace is set by an engine that has a watchdog: it returns the engine
// name and the trace being generated or executed right now.
var CurrentTrace func() (string, interface{})

// ReplayExpect is set by ReplayFile: the violation a hang would reproduce.
var ReplayExpect *struct{ Prop, Sig, Path string }

// HangDump is what a hung process leaves behind for the orchestrator.
type HangDump struct {
	Engine string          `json:"engine"`
	Trace  json.RawMessage `json:"trace"`
	Stack  string          `json:"stack"`
	Reason string          `json:"reason"`
}

func hangFile(pid int) string {
	return filepath.Join(VerifDir(), "build", fmt.Sprintf("hang-%d.json", pid))
}

// HangOwner finds the innermost non-library frame of the goroutine that runs
// the tool (the one whose stack contains marker).
func HangOwner(stack, marker string) (fn string, harness bool) {
	for _, g := range strings.Split(stack, "\n\n") {
		if !strings.Contains(g, marker) {
			continue
		}
		for _, l := range strings.Split(g, "\n") {
			if strings.HasPrefix(l, "\t") || strings.HasPrefix(l, "goroutine ") || l == "" {
				continue
			}
			if !strings.HasPrefix(l, "mltwist/") {
				continue // runtime, syscall, regexp, fmt, ...
			}
			if i := strings.LastIndex(l, "("); i > 0 {
				l = l[:i]
			}
			if strings.Contains(l, "/verifsim/") {
				return strings.TrimPrefix(l, "mltwist/"), true
			}
			return strings.TrimPrefix(l, "mltwist/"), false
		}
	}
	return "", true
}

// OnHang is called by a watchdog goroutine. It never returns.
func OnHang(reason, marker string) {
	buf := make([]byte, 1<<20)
	n := runtime.Stack(buf, true)
	stack := string(buf[:n])
	fmt.Fprintf(os.Stderr, "HARNESS: watchdog: %s\n", reason)
	if ReplayExpect != nil {
		fn, harness := HangOwner(stack, marker)
		if !harness && "hang/"+fn == ReplayExpect.Sig {
			fmt.Fprintf(os.Stdout, "replay: reproduced oracle=no-hang signature=%s detail=the tool did not return to the simulator (%s); innermost frame %s\n", ReplayExpect.Sig, reason, fn)
			fmt.Fprintf(os.Stdout, "VIOLATION property=%s replay=%s\n", ReplayExpect.Prop, ReplayExpect.Path)
			os.Exit(1)
		}
		fmt.Fprintf(os.Stderr, "HARNESS: hang during replay does not match the recorded violation (innermost frame %q)\n", fn)
		os.Exit(2)
	}
	d := HangDump{Stack: stack, Reason: reason}
	if CurrentTrace != nil {
		name, tr := CurrentTrace()
		d.Engine = name
		if raw, err := json.Marshal(tr); err == nil {
			d.Trace = raw
		}
	}
	if raw, err := json.Marshal(d); err == nil {
		os.MkdirAll(filepath.Dir(hangFile(os.Getpid())), 0o755)
		os.WriteFile(hangFile(os.Getpid()), raw, 0o644)
	}
	os.Exit(97)
}

// takeHangDump reads and removes the dump a child left behind.
func takeHangDump(pid int) *HangDump {
	p := hangFile(pid)
	raw, err := os.ReadFile(p)
	if err != nil {
		return nil
	}
	os.Remove(p)
	d := &HangDump{}
	if json.Unmarshal(raw, d) != nil {
		return nil
	}
	return d
}
