package core

import (
	"encoding/json"
	"fmt"
	"hash/fnv"
	"io"
	"runtime/debug"
	"sort"
	"strings"
)

// Trace is an explicit, JSON-serialisable list of events: operations with
// concrete arguments, fault events and simulated-party answers. A trace can be
// re-executed, cut and edited without the generator that produced it.
type Trace interface {
	// Len is the number of events.
	Len() int
	// Without returns a copy of the trace without events [from, to).
	Without(from, to int) Trace
	// Simplify returns candidate traces in which event i (or a global knob
	// when i == -1) is made simpler. May return nil.
	Simplify(i int) []Trace
}

// Violation is the verdict of an oracle.
type Violation struct {
	Property  string `json:"property"`
	Oracle    string `json:"oracle"`
	Signature string `json:"signature"`
	Event     int    `json:"event"`
	Detail    string `json:"detail"`
}

func (v *Violation) Key() string { return v.Property + "|" + v.Signature }

// Ctx is handed to an executor: which property's oracles to evaluate, which
// violation signatures are known findings (tolerated: recorded, model
// resynchronised, run continues), and the event-log sink.
type Ctx struct {
	Prop     string
	Tolerate map[string]bool
	Log      io.Writer // optional: full event log

	hash      uint64
	Events    int
	Faults    map[string]int
	Probes    map[string]int
	States    map[string]struct{}
	Known     map[string]int // tolerated signature -> hits
	KnownEx   map[string]string
	Resyncs   int
	NonTriv   bool
	Violation *Violation
}

func NewCtx(prop string, tolerate map[string]bool, log io.Writer) *Ctx {
	return &Ctx{
		Prop: prop, Tolerate: tolerate, Log: log,
		hash:   14695981039346656037,
		Faults: map[string]int{}, Probes: map[string]int{},
		States: map[string]struct{}{}, Known: map[string]int{}, KnownEx: map[string]string{},
	}
}

// Note folds one observable into the event-log hash (and the log when asked).
// It never draws from a PRNG and never reads a clock.
func (c *Ctx) Note(format string, args ...interface{}) {
	s := fmt.Sprintf(format, args...)
	h := fnv.New64a()
	var b [8]byte
	for i := 0; i < 8; i++ {
		b[i] = byte(c.hash >> (8 * uint(i)))
	}
	h.Write(b[:])
	h.Write([]byte(s))
	c.hash = h.Sum64()
	if c.Log != nil {
		fmt.Fprintf(c.Log, "%s\n", s)
	}
}

// Event marks the start of event i.
func (c *Ctx) Event(i int, desc string) {
	c.Events++
	c.Note("ev %d %s", i, desc)
}

func (c *Ctx) Hash() uint64      { return c.hash }
func (c *Ctx) Fault(k string)    { c.Faults[k]++ }
func (c *Ctx) Probe(k string)    { c.Probes[k]++ }
func (c *Ctx) State(k string)    { c.States[k] = struct{}{} }
func (c *Ctx) Failed() bool      { return c.Violation != nil }
func (c *Ctx) MarkNonTrivial()   { c.NonTriv = true }
func (c *Ctx) Wants(p string) bool { return c.Prop == p }

// Fail reports an oracle failure of property prop. It returns true when the
// run must stop (a real violation), false when the signature is a known
// finding: the caller then resynchronises its model and continues.
// Failures of properties other than the one being checked are ignored
// entirely (returns false, nothing recorded) so that P's verdict never depends
// on another property's defect; callers still resynchronise.
func (c *Ctx) Fail(prop, oracle, sig string, ev int, format string, args ...interface{}) bool {
	if prop != c.Prop {
		c.Resyncs++
		return false
	}
	detail := fmt.Sprintf(format, args...)
	if len(detail) > 2000 {
		detail = detail[:2000] + "..."
	}
	if c.Tolerate[sig] {
		c.Known[sig]++
		if _, ok := c.KnownEx[sig]; !ok {
			c.KnownEx[sig] = detail
		}
		c.Resyncs++
		c.Note("known %s", sig)
		return false
	}
	if c.Violation == nil {
		c.Violation = &Violation{Property: prop, Oracle: oracle, Signature: sig, Event: ev, Detail: detail}
		c.Note("violation %s %s", oracle, sig)
	}
	return true
}

// PanicSig turns a recovered panic into a short stable signature: the
// innermost mltwist frame (function name) that is not part of the harness.
func PanicSig(val interface{}, stack []byte) (fn string, msg string) {
	msg = fmt.Sprint(val)
	fn = "unknown"
	lines := strings.Split(string(stack), "\n")
	seenPanic := false
	for _, l := range lines {
		l = strings.TrimSpace(l)
		if strings.HasPrefix(l, "panic(") {
			seenPanic = true
			continue
		}
		if !seenPanic {
			continue
		}
		if strings.HasPrefix(l, "mltwist/") && !strings.Contains(l, "/verifsim/") {
			if i := strings.LastIndex(l, "("); i > 0 {
				l = l[:i]
			}
			l = strings.TrimPrefix(l, "mltwist/")
			fn = l
			break
		}
	}
	// Keep only the stable part of the message (strip numbers).
	return fn, msg
}

// LastPanicStack is the stack of the most recent panic caught by Guard.
var LastPanicStack string

// Guard runs f and converts an escaping panic into (fn, msg, true).
func Guard(f func()) (fn, msg string, panicked bool) {
	defer func() {
		if r := recover(); r != nil {
			st := debug.Stack()
			LastPanicStack = string(st)
			fn, msg = PanicSig(r, st)
			panicked = true
		}
	}()
	f()
	return
}

// MsgClass strips digits/hex from a panic message so it can be part of a
// signature.
func MsgClass(msg string) string {
	var sb strings.Builder
	lastHash := false
	for _, r := range msg {
		if (r >= '0' && r <= '9') || (lastHash && ((r >= 'a' && r <= 'f') || r == 'x')) {
			if !lastHash {
				sb.WriteByte('#')
			}
			lastHash = true
			continue
		}
		lastHash = false
		sb.WriteRune(r)
	}
	s := sb.String()
	if len(s) > 80 {
		s = s[:80]
	}
	return s
}

// Engine is one simulator: generator + executor for a family of properties.
type Engine interface {
	Name() string
	Props() []string
	// Generate draws the swarm configuration and emits the trace of one run.
	Generate(r *Rand, prop string, tier string) Trace
	// Decode parses a stored trace.
	Decode(raw json.RawMessage) (Trace, error)
	// Execute is a pure function of (trace, code under test): it drives the
	// real mltwist code and the reference model event by event and evaluates
	// the oracles of ctx.Prop. It never consults a PRNG.
	Execute(t Trace, ctx *Ctx)
	// Describe returns static text for the evidence file.
	Describe(prop string) Description
}

// Description is the static part of an evidence file.
type Description struct {
	Rule           string
	ComponentsReal []string
	ComponentsStub []string
	Assumptions    []string
	QuickRuns      int
}

var engines = map[string]Engine{}

func Register(e Engine) { engines[e.Name()] = e }

func EngineFor(prop string) Engine {
	names := make([]string, 0, len(engines))
	for n := range engines {
		names = append(names, n)
	}
	sort.Strings(names)
	for _, n := range names {
		for _, p := range engines[n].Props() {
			if p == prop {
				return engines[n]
			}
		}
	}
	return nil
}

func EngineByName(n string) Engine { return engines[n] }

func AllEngines() []Engine {
	names := make([]string, 0, len(engines))
	for n := range engines {
		names = append(names, n)
	}
	sort.Strings(names)
	out := make([]Engine, 0, len(names))
	for _, n := range names {
		out = append(out, engines[n])
	}
	return out
}
