package core

// Minimise shrinks a violating trace while the verdict keeps the same
// signature: (1) cut after the violating event, (2) ddmin over events, (3)
// per-event simplification, (4) global knobs, repeated to a fixpoint under a
// step cap.
func Minimise(e Engine, t Trace, prop string, tolerate map[string]bool, sig string, maxExec int) (Trace, *Violation, int) {
	execs := 0
	try := func(c Trace) *Violation {
		if execs >= maxExec {
			return nil
		}
		execs++
		ctx := NewCtx(prop, tolerate, nil)
		e.Execute(c, ctx)
		if ctx.Violation != nil && ctx.Violation.Signature == sig {
			return ctx.Violation
		}
		return nil
	}

	best := t
	bestV := try(t)
	if bestV == nil {
		return t, nil, execs
	}

	for round := 0; round < 8 && execs < maxExec; round++ {
		changed := false

		// (1) drop everything after the violating event.
		if bestV.Event >= 0 && bestV.Event+1 < best.Len() {
			c := best.Without(bestV.Event+1, best.Len())
			if v := try(c); v != nil {
				best, bestV, changed = c, v, true
			}
		}

		// (2) ddmin: remove chunks, halving the chunk size.
		for chunk := best.Len() / 2; chunk >= 1 && execs < maxExec; {
			removed := false
			for start := 0; start+chunk <= best.Len() && execs < maxExec; {
				c := best.Without(start, start+chunk)
				if v := try(c); v != nil {
					best, bestV, changed, removed = c, v, true, true
					continue // same start, list is shorter now
				}
				start += chunk
			}
			if !removed || chunk == 1 {
				chunk /= 2
			} else if chunk > best.Len()/2 {
				chunk = best.Len() / 2
			}
		}

		// (3) per-event simplification, (4) global knobs (i == -1).
		for i := -1; i < best.Len() && execs < maxExec; i++ {
			for progress := true; progress && execs < maxExec; {
				progress = false
				for _, c := range best.Simplify(i) {
					if v := try(c); v != nil {
						best, bestV, changed, progress = c, v, true, true
						break
					}
				}
			}
		}

		if !changed {
			break
		}
	}

	return best, bestV, execs
}
