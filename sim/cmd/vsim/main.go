// Command vsim is the single binary serving all simulation engines.
package main

import (
	"flag"
	"fmt"
	"os"
	"strconv"
	"strings"

	"mltwist/internal/consoleui/verifsim/core"
	_ "mltwist/internal/consoleui/verifsim/emusim"
	_ "mltwist/internal/consoleui/verifsim/loadsim"
	_ "mltwist/internal/consoleui/verifsim/memsim"
	_ "mltwist/internal/consoleui/verifsim/movesim"
	"mltwist/internal/consoleui/verifsim/uisim"
)

func main() {
	if len(os.Args) < 2 {
		fmt.Fprintln(os.Stderr, "usage: vsim run|worker|shrink|replay|one|hashes|transcript ...")
		os.Exit(2)
	}
	cmd := os.Args[1]
	fs := flag.NewFlagSet(cmd, flag.ExitOnError)
	prop := fs.String("prop", "", "property id")
	tier := fs.String("tier", "quick", "quick|thorough")
	seedS := fs.String("seed", "", "VERIF_SEED (default env VERIF_SEED or 20260921)")
	seedsS := fs.String("seeds", "", "space separated list of seeds (run: budget split, evidence aggregated)")
	runs := fs.Int("runs", 0, "number of runs (0 = default)")
	budget := fs.Int("budget", 0, "wall-clock budget in seconds (0 = none)")
	workers := fs.Int("workers", 0, "worker processes (0 = NumCPU)")
	w := fs.Int("w", 0, "worker index")
	W := fs.Int("W", 1, "worker count")
	deadline := fs.Int64("deadline", 0, "unix deadline")
	hashfile := fs.String("hashfile", "", "where to write non-trivial run hashes")
	idx := fs.Int("idx", 0, "run index")
	from := fs.Int("from", 0, "first run index")
	to := fs.Int("to", 0, "end run index")
	verbose := fs.Bool("v", false, "verbose")
	quiet := fs.Bool("quiet", false, "no event log")
	withKnown := fs.Bool("with-known", false, "tolerate other known findings while replaying")
	fs.Parse(os.Args[2:])

	seed := uint64(20260921)
	if s := os.Getenv("VERIF_SEED"); s != "" {
		if v, err := strconv.ParseUint(s, 10, 64); err == nil {
			seed = v
		} else if v, err := strconv.ParseInt(s, 10, 64); err == nil {
			seed = uint64(v)
		}
	}
	if *seedS != "" {
		v, err := strconv.ParseUint(*seedS, 10, 64)
		if err != nil {
			fmt.Fprintln(os.Stderr, "bad -seed")
			os.Exit(2)
		}
		seed = v
	}
	opt := core.Options{Prop: *prop, Tier: *tier, Seed: seed, Runs: *runs, BudgetS: *budget, Workers: *workers}

	for _, f := range strings.Fields(*seedsS) {
		if v, err := strconv.ParseUint(f, 10, 64); err == nil {
			opt.Seeds = append(opt.Seeds, v)
		}
	}

	switch cmd {
	case "run":
		os.Exit(core.Run(opt))
	case "worker":
		os.Exit(core.Worker(opt, *w, *W, *deadline, *hashfile, os.Stdout))
	case "shrink":
		os.Exit(core.Shrink(opt, *idx))
	case "replay":
		if fs.NArg() != 1 {
			fmt.Fprintln(os.Stderr, "usage: vsim replay [-quiet] <file>")
			os.Exit(2)
		}
		os.Exit(core.ReplayFile(fs.Arg(0), *quiet, *withKnown))
	case "one":
		os.Exit(core.One(opt, *idx, *verbose))
	case "hashes":
		os.Exit(core.Hashes(opt, *from, *to))
	case "transcript":
		n := *runs
		if n <= 0 {
			n = 300
		}
		os.Exit(uisim.Transcript(seed, n))
	case "toolprobe":
		os.Exit(uisim.ToolProbe(seed))
	default:
		fmt.Fprintln(os.Stderr, "unknown command", cmd)
		os.Exit(2)
	}
}
