#!/usr/bin/env python3
"""Regenerate /verif/MANIFEST.json from the tables below (kept in one place so
that claimed / not-applicable lists never drift apart)."""
import json, os, subprocess

HERE = os.path.dirname(os.path.dirname(os.path.abspath(__file__)))

TECH = "deterministic simulation with fault injection: seeded generation of histories/schedules and fault sequences, executed against the real code and a reference model with per-event oracles; ddmin minimisation; exact replay"

CLAIMED = {
    # id: (engine, design_ref, level text, level note)
    "C03": ("emusim", "6.2",
            "Generated RV64IMA programs (all instruction classes, boundary immediates/shifts, overlapping accesses of different widths, image-straddling and untouched memory, loops, bad jumps) are loaded by the real pipeline and stepped through the real emulator over Overlay(Bytes, Sparse) next to an independent RISC-V interpreter; a simulated provider supplies unknown state, a simulated operator edits registers, memory and pc between steps; after every step: failure iff not at an instruction start, exact step report, registers / known memory / ip equal to the reference, no panic. One run in 250 is a tool-tier run: the real binary on a pty is taken through 2-4 consecutive emulations (load, store, load back through a supplied pointer into or outside the image) and the registers on its screens must be those of a machine started from the program image each time.",
            "Trusted: rvref interpreter (known-answer tests: ./check selftest-models). Under C03 the provider answers a question that must never be asked (state the emulator already knew) with the complement of the truth. Known open findings (narrow register fill, accesses wrapping around 2^64) are listed in known_findings.json; after a narrow fill the reference is resynchronised to the emulator's assumption."),
    "C04": ("emusim", "6.2",
            "Same simulated machine: every provider request is an event checked against a known-set model (pre-known, program image, written by program or operator, supplied earlier): requested state was never known and never requested before; supplied values are re-checked at every later reported read. Tool-tier runs (1 in 250): the prompts of the real binary over consecutive emulations must be exactly those for state that emulation has never known.",
            "Trusted: known-set model in the harness; provider answers truthfully at the requested width. A step refused for reaching the end of the address space (open C03 finding) is stepped over and the bookkeeping continues."),
    "C05": ("movesim", "6.3",
            "Seeded codes (synthetic ISA and real RV64IMA words) and move histories; every block whose order changed is emulated through the real emulator on a fresh unmoved code and on the moved code from identical pseudo-random machine states (simulated lazy memory provider); final registers, memory and instruction pointer must agree; unmoved instructions single-stepped after block moves.",
            "Trusted: harness provider and state rendering; emulator is the real one on both sides (relational oracle). A block is run until control leaves it or returns to its start (one pass for a basic block)."),
    "C06": ("movesim", "6.3",
            "At the initial state and after every move of a seeded history, every adjacent pair that is independent by the statement's five clauses (computed by the harness from the effects) is probed with a real Move(i,i+1), which must be accepted and is then undone.",
            "Trusted: harness independence computation written from the statement."),
    "C07": ("movesim", "6.3",
            "Seeded histories of instruction moves, block moves and lookups with valid/boundary/invalid indices; after every event the real code is compared with a sequence model (admission iff within reported bounds, rejection changes nothing, rotation, address tiling, lookups, dependency order via the VerifDeps hook, block moves permute only).",
            "Trusted: sequence model; dependency edges read through the verif hook. Lookup sweeps alternate their direction; a third of the histories look nothing up before their first accepted block move."),
    "C20": ("loadsim", "6.4",
            "Simulated disk under the ELF loader: seeded well-formed images (ELF32/64, LE/BE, all types, odd section/segment layouts) with injected storage faults (truncation, torn/lost writes, bit flips) and read faults (EIO, short reads through the ReaderAt hook); the loader's answer is judged against an independent ELF reader on the bytes delivered; must-reject cases must be rejected; no panic. One fault-free-reader run in 16 starts the real binary on the image: it must not reach its first prompt on a file the reference says is rejected.",
            "Trusted: elfref reader/builder. Images needing 64 MiB..2^48 B of zero padding are not loaded in-process."),
    "C26": ("loadsim", "6.4",
            "Same disk model plus path and argument faults, run through an in-process replica of main.run() (recover as crash detector) and, for 1 run in 12, the real mltwist binary as a child on a pty under ulimit -v: outcome must be error exit with 'mltwist: ' message or UI entered and quit works; never a crash.",
            "Trusted: the replica of main.go wiring (cross-checked by the child runs). Child runs use real OS processes; their outcome depends only on the file and arguments."),
    "C14": ("memsim", "6.1",
            "Seeded histories of overlapping Store/Load/Missing/Blocks on memory.Sparse with constant and symbolic values; after every event the object is compared with a byte-addressed reference model under 6 valuations, plus an aliasing snapshot oracle. Exploration: sampled, not exhaustive.",
            "Trusted: bytemem + refeval reference (written from pkg/expr docs). Ranges non-wrapping, widths 1..255."),
    "C15": ("memsim", "6.1",
            "Seeded initial layouts (overlapping, abutting, empty, unsorted) and constant write/read histories on memory.Bytes, checked after every event against the reference model; constructor must reject exactly the overlapping layouts; aliasing oracle on every slice/constant that crossed the interface.",
            "Trusted: bytemem reference. Non-constant stores are outside the type's documented contract and are not generated."),
    "C16": ("memsim", "6.1",
            "Seeded histories through memory.Overlay over a Bytes or pre-filled Sparse base; per-event comparison with a two-layer reference model (upper if written else base), Missing = neither layer, Blocks = union, base snapshot unchanged.",
            "Trusted: bytemem + refeval reference."),
    "C18": ("memsim", "6.1",
            "Seeded register store/load histories with mixed widths and symbolic values and State.Apply of register stores and memory stores with constant, constant-foldable and symbolic addresses; last-write model; refused Apply must leave a rendered state snapshot unchanged.",
            "Trusted: refeval reference."),
    "C22": ("uisim", "6.5",
            "Whole interactive sessions (real UI.Run, modes, line reader, renderer, terminal-size ioctl on a pty) under a seeded simulated user and scheduler: all commands/aliases with boundary, huge, negative, non-numeric arguments, odd spacing, garbage; stream faults (split/glued lines, CRLF, over-long line, EOF, read error) and terminal faults (resizes, non-tty). No panic may escape Run(); non-commands must be answered with 'error:'; Run() returns as specified.",
            "Trusted: prompt classification and frame parsing from the captured output. Stream end is injected only at non-value prompts."),
    "C23": ("uisim", "6.5",
            "Sessions biased to instruction/block moves and alllines dumps: every listing row of every frame and dump must equal the same row of a fresh rendering of the current deps.Code; a rejected move leaves the rendering unchanged.",
            "Trusted: fresh rendering from deps.Code's public API; marks and column padding excluded."),
    "C24": ("uisim", "6.5",
            "Sessions biased to terminal resizes before renders (1-300 rows): no frame may exceed the rows in force; direct driver renders the live listing view, emulator composite and memory view with Print(n) for n from the declared minimum to minimum+40: no panic, at most n lines, exactly n for fixed-height views.",
            "Trusted: line counting of captured output. Run() ending in 'element printing failed' on a terminal that grants the declared minimum is a failure of the fixed-height clause (except the documented listing-shorter-than-its-minimum case); an error returned by a direct Print is not judged."),
    "C30": ("uisim", "6.5",
            "Sessions biased to emulation value prompts, regmod and memory-view 'address': numbers are spelled in random accepted bases/sign/case; the address must select the right row or be echoed exactly in the 'no line' error, other arguments must be answered with an error; typed values must appear in the live emulator state as the integer modulo 2^(8w); malformed answers must be rejected and the same item re-prompted.",
            "Trusted: the harness's own strict parser of the checked forms; live state read at simulator re-entry. One run in six is the prompt lab: the real emulation mode and state provider over a synthetic code model, value prompts of 1..255 bytes."),
    "C31": ("uisim", "6.5",
            "Sessions biased to navigation: cursor parsed from frames before/after down/up/goto/entrypoint/find against a model (error => unchanged; else +-N, N, entry instruction line, first cyclic regex match after the cursor).",
            "Trusted: model texts for find; patterns with blanks or anchors are judged against the exact line text (indentation and column padding measured on the screen) only when that reconstruction reproduces every displayed row."),
    "C32": ("uisim", "6.5",
            "Sessions that emulate and then open memory views, plus direct whole-view renders: rows must be exactly one per 16-byte window overlapping the live memory's stored blocks, ascending, with each stored byte's value, '..' for absent bytes, one ellipsis row between non-consecutive rows; 'address' selects the row of a stored byte or reports absence.",
            "Trusted: expected rows are computed from the live memory object's Blocks()/Load() (their correctness is C14-C16)."),
}

PENDING = {
    # claimed in DESIGN.md, engine not built yet -> not claimed until it is
}

NOT_APPLICABLE = {
    "C01": "Pure function (instruction word, address, configuration) -> effects; no state, schedule, fault or I/O for a simulator to control. (RV64IMA lifting is exercised by the C03 machine simulation, but the all-variants/all-words statement is not claimed.)",
    "C02": "Pure function word x configuration -> accept/name; nothing to schedule or fault.",
    "C08": "Pure function (entry point, instruction list) -> partition or error; no history or I/O.",
    "C09": "Pure function expression -> expression, judged under valuations; no history, fault or I/O.",
    "C10": "Pure constant arithmetic.",
    "C11": "Pure expression constructors judged under valuations.",
    "C12": "Pure expression rewriting judged under valuations.",
    "C13": "Pure expression enumeration judged under valuations.",
    "C17": "Pure functions on immutable interval sets.",
    "C19": "Pure function pattern set -> matcher, matcher x bytes -> result; immutable after construction.",
    "C21": "Pure function of an in-memory code image (the I/O part of loading is C20/C26).",
    "C25": "Pure function word -> text.",
    "C27": "Pure constructors/decoders of immutable constants.",
    "C28": "Pure structural functions on immutable trees.",
    "C29": "Pure string function.",
}

ENGINES = {
    "memsim": ("sim/memsim", "seeded operation histories on the memory objects and register file vs. byte-addressed reference model"),
    "movesim": ("sim/movesim", "seeded histories of instruction/block moves and lookups vs. sequence model; relational emulation of original vs. reordered blocks"),
    "emusim": ("sim/emusim", "RV64IMA programs stepped through the real loader/lifter/emulator with a simulated state provider and operator vs. an independent RISC-V interpreter; tool-tier runs take the real binary through consecutive emulations on a pty"),
    "loadsim": ("sim/loadsim", "simulated disk (truncation, torn/lost writes, bit flips, read errors) under the ELF loader and start-up, vs. an independent ELF reader; real binary as child process"),
    "uisim": ("sim/uisim", "whole interactive session under a simulated user, input stream and terminal (pty), vs. screen/UI models"),
}


def main():
    hooks_commits = subprocess.run(
        ["git", "-C", "/repo", "log", "--format=%H %s", "--grep", "^verif hook:"],
        capture_output=True, text=True).stdout.strip().splitlines()
    all_ids = ["C%02d" % i for i in range(1, 33)]
    checks = []
    for pid in all_ids:
        if pid not in CLAIMED:
            continue
        eng, ref, text, note = CLAIMED[pid]
        checks.append({
            "property_id": pid,
            "quick_cmd": "./check %s quick" % pid,
            "thorough_cmd": "./check %s thorough" % pid,
            "evidence_file": "/verif/evidence/%s.json" % pid,
            "replay_cmd_template": "./check %s --replay {path}" % pid,
            "engine": eng,
            "level_claimed": {"category": "exploration", "text": text, "design_ref": "DESIGN.md section " + ref},
            "level_note": note,
            "technique": TECH,
        })
    na = []
    for pid in all_ids:
        if pid in CLAIMED:
            continue
        if pid in NOT_APPLICABLE:
            na.append({"property_id": pid, "reason": NOT_APPLICABLE[pid]})
        else:
            na.append({"property_id": pid, "reason": PENDING.get(pid, "not claimed yet: simulation engine for this property is still under construction (DESIGN.md section 6); no check is registered, so nothing is asserted")})
    used = sorted({c["engine"] for c in checks})
    manifest = {
        "version": 1,
        "setup_cmd": "./check build",
        "hooks": {
            "guard": "verif (Go build tag)",
            "enable": "go build -tags verif -overlay /verif/build/overlay.json (the harness under /verif/sim is mapped into the module by the overlay; nothing is written to /repo)",
            "baseline_off_cmd": "cd /repo && GOFLAGS=-mod=mod GOPROXY=off GOSUMDB=off go test -json -vet=off -count=1 -timeout 25m ./...",
            "source_commits": [l.split()[0] for l in hooks_commits],
            "add_only": True,
        },
        "engines": [{"name": n, "path": ENGINES[n][0], "serves_properties": [c["property_id"] for c in checks if c["engine"] == n], "kind_free_text": ENGINES[n][1]} for n in used],
        "checks": checks,
        "not_applicable": na,
        "notes": "All checks: exit 0 = held on everything explored (KNOWN-FINDING lines for listed open findings), exit 1 + VIOLATION line = unlisted violation that replayed in a fresh process, exit 2 = harness/build trouble (never a VIOLATION line). VERIF_SEED selects the seed; VERIF_BUDGET_S the thorough wall-clock budget (default 600 s per property).",
    }
    with open(os.path.join(HERE, "MANIFEST.json"), "w") as fh:
        json.dump(manifest, fh, indent=1)
        fh.write("\n")


main()
