#!/usr/bin/env python3
"""Update seeded/*/meta.json from the output of `./check selftest-seeded [tier]`.
usage: record_seeded.py <log> <tier>"""
import json, os, re, sys
HERE = os.path.dirname(os.path.dirname(os.path.abspath(__file__)))
tier = sys.argv[2] if len(sys.argv) > 2 else "quick"
for line in open(sys.argv[1]):
    m = re.match(r"seeded/(C\d+-\d+)/ (?:(quick|thorough) )?(C\d+) exit=(\d+)(.*)", line)
    if not m:
        continue
    name, prop, rc, rest = m.group(1), m.group(3), int(m.group(4)), m.group(5)
    if m.group(2):
        tier = m.group(2)
    p = os.path.join(HERE, "seeded", name, "meta.json")
    meta = json.load(open(p))
    sig = re.search(r"signature=(\S+)", rest)
    if rc == 1:
        meta.update(check_exit=1, caught_by=prop, caught_tier=tier, signature=sig.group(1) if sig else None,
                    check_run="tools/try_seeded.sh patch.diff %s %s (scratch worktree + scratch copy of /verif, VERIF_REPO)" % (tier, prop))
    elif not meta.get("caught_by"):
        meta.update(check_exit=rc, caught_by=None, signature=None)
    json.dump(meta, open(p, "w"), indent=1)
    print(name, rc, meta.get("caught_by"), meta.get("caught_tier"))
