#!/bin/bash
# Confirm a seeded change delivered by a sub-agent, in a scratch worktree:
#   tools/confirm_seeded.sh <change-dir>
# 1. the patch applies to /repo HEAD, 2. the code builds and the baseline suite
# passes with it, 3. the demonstration passes without the change and fails with
# it. Prints CONFIRMED or the reason why not. Touches neither /repo nor /verif.
set -u
d=$(readlink -f "$1")
export GOFLAGS=-mod=mod GOPROXY=off GOSUMDB=off GOTOOLCHAIN=local
wt=$(mktemp -d /tmp/cfwt-XXXXXX)
cleanup() { git -C /repo worktree remove --force "$wt" >/dev/null 2>&1; rm -rf "$wt"; git -C /repo worktree prune; }
trap cleanup EXIT
rmdir "$wt"
git -C /repo worktree add -q --detach "$wt" HEAD || exit 2
read -r tname pkg tags < <(python3 -c "
import json,re
c=json.load(open('$d/meta.json'))['demo_cmd']
t=re.search(r\"-run[ =]+'?([A-Za-z0-9_|^$]+)'?\", c)
p=re.findall(r'\./(?:cmd|internal|pkg)[A-Za-z0-9_/.-]*', c)
print(t.group(1) if t else 'NONE', p[-1].rstrip('/') if p else 'NONE', 'verif' if '-tags verif' in c else '-')")
[ "$tname" != NONE ] && [ "$pkg" != NONE ] || { echo "CANNOT PARSE demo_cmd"; exit 2; }
putdemo() { for f in "$d"/*_test.go; do [ -e "$f" ] && cp "$f" "$wt/$pkg/"; done; }
rmdemo() { for f in "$d"/*_test.go; do [ -e "$f" ] && rm -f "$wt/$pkg/$(basename "$f")"; done; }
tagarg=""; [ "$tags" = verif ] && tagarg="-tags verif"
cmd="go test $tagarg -vet=off -count=1 -run '$tname' $pkg/ < /dev/null"
cd "$wt"
putdemo
if ! bash -c "$cmd" >/tmp/cf.$$ 2>&1; then echo "DEMO FAILS WITHOUT THE CHANGE"; tail -8 /tmp/cf.$$; rm -f /tmp/cf.$$; exit 3; fi
rmdemo
if ! git apply "$d/patch.diff"; then echo "PATCH DOES NOT APPLY"; exit 3; fi
# the unedited baseline suite, without the demonstration in the tree
if ! (go build ./... && go test -vet=off -count=1 ./... >/tmp/cf.$$ 2>&1); then
  echo "BASELINE FAILS WITH THE CHANGE"; grep -E "^(--- FAIL|FAIL|panic)" /tmp/cf.$$ | head -5; rm -f /tmp/cf.$$; exit 3
fi
putdemo
if bash -c "$cmd" >/tmp/cf.$$ 2>&1; then echo "DEMO PASSES WITH THE CHANGE"; rm -f /tmp/cf.$$; exit 3; fi
echo "CONFIRMED: $(grep -m1 -E '(--- FAIL|^FAIL|^panic)' /tmp/cf.$$ | cut -c1-120)"
rm -f /tmp/cf.$$
