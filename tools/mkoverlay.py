#!/usr/bin/env python3
"""Generate the go -overlay file mapping /verif/sim/** into the mltwist module.

The harness must import mltwist's internal packages, which Go only allows from
inside the module subtree, so every harness file is mapped (not copied) to
<repo>/internal/consoleui/verifsim/<rel>. Nothing is written to the repo.
"""
import json, os, sys

def main():
    sim, repo, out = sys.argv[1], sys.argv[2], sys.argv[3]
    repl = {}
    for root, _, files in os.walk(sim):
        for f in files:
            if not f.endswith(".go"):
                continue
            src = os.path.join(root, f)
            rel = os.path.relpath(src, sim)
            repl[os.path.join(repo, "internal/consoleui/verifsim", rel)] = src
    with open(out, "w") as fh:
        json.dump({"Replace": repl}, fh, indent=1, sort_keys=True)

main()
