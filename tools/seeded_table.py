#!/usr/bin/env python3
"""Write /verif/seeded/README.md: which check catches which seeded change."""
import glob, json, os, re

HERE = os.path.dirname(os.path.dirname(os.path.abspath(__file__)))


def short(s, n):
    s = re.sub(r"\s+", " ", s or "").strip()
    return s if len(s) <= n else s[: n - 1] + "…"


def main():
    rows = []
    for d in sorted(glob.glob(os.path.join(HERE, "seeded", "*", "meta.json"))):
        m = json.load(open(d))
        rows.append((os.path.basename(os.path.dirname(d)), m))
    out = ["# Seeded changes and the checks that catch them", "",
           "Every change below was written by an independent sub-agent that saw only the text of one property and a",
           "scratch worktree of /repo (nothing from /verif). Each was confirmed here before it was kept",
           "(`tools/confirm_seeded.sh`: the demonstration passes without the change; with it the code builds, the",
           "unedited baseline suite passes and the demonstration fails) and then run against the property's quick",
           "check from a scratch copy of /verif (`tools/try_seeded.sh`). `./check selftest-seeded` repeats all of it.",
           "", "| id | property | change (what / what it needs) | caught by | signature |", "|---|---|---|---|---|"]
    caught = 0
    for name, m in rows:
        c = m.get("caught_by") or "**missed**"
        if m.get("caught_by"):
            caught += 1
        out.append("| %s | %s | %s — needs: %s | %s (%s) | `%s` |" % (
            name, m["property"], short(m.get("summary"), 230), short(m.get("needs"), 200), c, m.get("caught_tier", "quick"), m.get("signature") or "-"))
    own_quick = sum(1 for _, m in rows if m.get("caught_by") == m["property"] and m.get("caught_tier", "quick") == "quick")
    out += ["", "%d of %d seeded changes are caught; %d by the quick check of their own property." % (caught, len(rows), own_quick), ""]
    open(os.path.join(HERE, "seeded", "README.md"), "w").write("\n".join(out))
    print(caught, len(rows))


main()
