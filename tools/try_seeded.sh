#!/bin/bash
# Evaluate a seeded change against the checks without touching /repo or /verif:
#   tools/try_seeded.sh <patch.diff> <tier> <property> [<property> ...]
# A scratch worktree of /repo gets the patch, a scratch copy of /verif runs the
# checks against it (VERIF_REPO), both are removed afterwards.
# Prints one line per property:  <prop> exit=<rc> <signature or ->
set -u
patch=$(readlink -f "$1"); tier=$2; shift 2
export GOFLAGS=-mod=mod GOPROXY=off GOSUMDB=off GOTOOLCHAIN=local
wt=$(mktemp -d /tmp/mutwt-XXXXXX); vf=$(mktemp -d /tmp/mutvf-XXXXXX)
cleanup() { git -C /repo worktree remove --force "$wt" >/dev/null 2>&1; rm -rf "$wt" "$vf"; git -C /repo worktree prune; }
trap cleanup EXIT
rmdir "$wt"
git -C /repo worktree add -q --detach "$wt" HEAD || exit 2
if ! git -C "$wt" apply "$patch"; then echo "PATCH DOES NOT APPLY"; exit 2; fi
if [ "${SKIP_BASELINE:-0}" != 1 ]; then
  if ! (cd "$wt" && go build ./... && go test -vet=off -count=1 ./... >/tmp/mut-baseline.$$ 2>&1); then
    echo "BASELINE FAILS WITH THE CHANGE (not a realistic seeded change)"; tail -5 /tmp/mut-baseline.$$; rm -f /tmp/mut-baseline.$$; exit 3
  fi
  rm -f /tmp/mut-baseline.$$
fi
rsync -a --exclude .git --exclude build --exclude 'replays/*' /verif/ "$vf"/
mkdir -p "$vf/replays"
for p in "$@"; do
  out=$(cd "$vf" && VERIF_REPO="$wt" ./check "$p" "$tier" 2>&1); rc=$?
  sig=$(echo "$out" | grep -m1 '^violation:' | sed 's/^violation: //' | cut -c1-260)
  [ -z "$sig" ] && sig=$(echo "$out" | grep -m1 'HARNESS' | cut -c1-200)
  echo "$p exit=$rc ${sig:--}"
done
