#!/usr/bin/env python3
"""Determinism self-test: for every claimed property, the event-log hashes of
run indices [0, N) must be identical across independent processes at
GOMAXPROCS 1, 4 and 16 (3 executions per index, >= 50 processes in total).
This is what would expose a dependence on Go's randomised map iteration inside
mltwist or inside the harness, on a real clock, or on worker scheduling.

usage: selftest_determinism.py [N] [prop ...]     (exit 0 = deterministic)
"""
import json, os, subprocess, sys
from concurrent.futures import ThreadPoolExecutor

HERE = os.path.dirname(os.path.dirname(os.path.abspath(__file__)))
VSIM = os.path.join(HERE, "build", "vsim")


def hashes(prop, n, procs, seed):
    env = dict(os.environ, GOMAXPROCS=str(procs), VERIF_DIR=HERE)
    out = subprocess.run([VSIM, "hashes", "-prop", prop, "-from", "0", "-to", str(n), "-seed", str(seed)],
                         capture_output=True, text=True, env=env, timeout=1800)
    if out.returncode != 0:
        return None, out.stderr[-2000:]
    return out.stdout, ""


def main():
    args = sys.argv[1:]
    n = 64
    if args and args[0].isdigit():
        n = int(args.pop(0))
    props = args or [c["property_id"] for c in json.load(open(os.path.join(HERE, "MANIFEST.json")))["checks"]]
    jobs = [(p, g) for p in props for g in (1, 4, 16)]
    bad = 0
    with ThreadPoolExecutor(max_workers=8) as ex:
        res = list(ex.map(lambda j: (j, hashes(j[0], n, j[1], 20260921)), jobs))
    by_prop = {}
    for (p, g), (out, err) in res:
        if out is None:
            print("HARNESS: %s GOMAXPROCS=%d failed: %s" % (p, g, err))
            bad += 1
            continue
        by_prop.setdefault(p, []).append((g, out))
    for p, outs in sorted(by_prop.items()):
        ref = outs[0][1].splitlines()
        ok = True
        for g, o in outs[1:]:
            lines = o.splitlines()
            if lines != ref:
                ok = False
                for a, b in zip(ref, lines):
                    if a != b:
                        print("NONDETERMINISM property=%s GOMAXPROCS=%d vs %d:\n  %s\n  %s" % (p, outs[0][0], g, a, b))
                        break
        print("%s: %d run indices x %d processes %s" % (p, len(ref), len(outs), "identical" if ok else "DIFFER"))
        if not ok:
            bad += 1
    print("processes: %d" % len(jobs))
    return 1 if bad else 0


sys.exit(main())
