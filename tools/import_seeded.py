#!/usr/bin/env python3
"""Import confirmed seeded changes delivered by sub-agents into /verif/seeded/.

usage: import_seeded.py <results-file> <out-dir-glob-root>
  results-file: lines "<change dir> :: <prop> exit=<rc> <violation summary>" written
                by the evaluation loop (tools/try_seeded.sh per change)
Each /verif/seeded/<prop>-<k>/ gets patch.diff, the demonstration and meta.json
(which property it breaks, what it needs to manifest, what was run to confirm it,
and which check caught it with which signature).
"""
import glob, json, os, re, shutil, sys

HERE = os.path.dirname(os.path.dirname(os.path.abspath(__file__)))


def main():
    results = {}
    for line in open(sys.argv[1]):
        if " :: " not in line:
            continue
        d, r = line.rstrip("\n").split(" :: ", 1)
        results[d.strip()] = r
    root = sys.argv[2] if len(sys.argv) > 2 else "/tmp"
    for d in sorted(glob.glob(os.path.join(root, "out-C*/change*"))):
        if not os.path.exists(os.path.join(d, "meta.json")) or not os.path.exists(os.path.join(d, "patch.diff")):
            continue
        m = json.load(open(os.path.join(d, "meta.json")))
        prop = re.search(r"out-(C\d+)", d).group(1)
        k = re.search(r"change(\d+)", d).group(1)
        dst = os.path.join(HERE, "seeded", "%s-%s" % (prop, k))
        os.makedirs(dst, exist_ok=True)
        for f in os.listdir(d):
            if f.endswith(".go") or f == "patch.diff":
                shutil.copy(os.path.join(d, f), os.path.join(dst, f))
        res = results.get(d, "")
        rc = re.search(r"exit=(\d+)", res)
        sig = re.search(r"signature=(\S+)", res)
        meta = {
            "property": prop,
            "summary": m.get("summary", ""),
            "needs": m.get("needs", ""),
            "demo_cmd": m.get("demo_cmd", ""),
            "origin": "independent sub-agent given only the property text and a scratch worktree of /repo (no access to /verif)",
            "confirmed": "tools/confirm_seeded.sh: in a fresh scratch worktree of /repo HEAD the demonstration passes without the change; with patch.diff applied `go build ./...` and the unedited baseline suite (`go test -vet=off -count=1 ./...`) pass and the demonstration fails",
            "check_run": "tools/try_seeded.sh patch.diff quick %s (scratch worktree + scratch copy of /verif, VERIF_REPO)" % prop,
            "check_exit": int(rc.group(1)) if rc else None,
            "caught_by": prop if rc and rc.group(1) == "1" else None,
            "signature": sig.group(1) if sig else None,
        }
        json.dump(meta, open(os.path.join(dst, "meta.json"), "w"), indent=1)
        print(prop, k, meta["check_exit"], meta["signature"])


main()
